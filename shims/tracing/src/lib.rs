//! No-op stand-in for the `tracing` crate: every event macro expands to `{}` without
//! evaluating its arguments (what real tracing does when no subscriber is interested), and
//! `#[instrument]` returns the item unchanged.  Used only for the Kani harness build, because
//! kani-compiler 0.68 ICEs on the thread-locals behind the real macros.
pub use tracing_attributes::instrument;

#[macro_export]
macro_rules! trace { ($($t:tt)*) => {{}}; }
#[macro_export]
macro_rules! debug { ($($t:tt)*) => {{}}; }
#[macro_export]
macro_rules! info { ($($t:tt)*) => {{}}; }
#[macro_export]
macro_rules! warn { ($($t:tt)*) => {{}}; }
#[macro_export]
macro_rules! error { ($($t:tt)*) => {{}}; }
