//! Recorder stubs for the hash primitives (DESIGN 2.2).  Each one records what the code under
//! test handed to the primitive and returns an unconstrained value: the logic around the
//! primitive is decided for *every* possible hash value; which bytes were hashed is asserted from
//! the record.  Natively (replay) the stubs are not applied and the real primitives run.
use crate::util::*;
use stun_types::message::{StunParseError, StunWriteError};

pub struct CrcRec {
    pub calls: usize,
    pub len: usize,
    pub b2: u8,
    pub b3: u8,
    /// data[probe] for the pre-drawn probe index (if probe < len)
    pub probe: usize,
    pub probe_byte: u8,
    pub out: [u8; 4],
}

pub static mut CRC: CrcRec = CrcRec { calls: 0, len: 0, b2: 0, b3: 0, probe: 0, probe_byte: 0, out: [0; 4] };

/// replaces stun_types::attribute::Fingerprint::compute
pub fn crc_stub(data: &[u8]) -> [u8; 4] {
    unsafe {
        CRC.calls += 1;
        CRC.len = data.len();
        if data.len() >= 4 {
            CRC.b2 = data[2];
            CRC.b3 = data[3];
        }
        if CRC.probe < data.len() {
            CRC.probe_byte = data[CRC.probe];
        }
        let out: [u8; 4] = kani::any();
        CRC.out = out;
        out
    }
}

pub struct MacRec {
    pub calls: usize,
    pub sha256: bool,
    pub len: usize,
    pub b2: u8,
    pub b3: u8,
    pub probe: usize,
    pub probe_byte: u8,
    pub key_len: usize,
    pub key_probe: usize,
    pub key_probe_byte: u8,
    pub exp_len: usize,
    pub exp_probe: usize,
    pub exp_probe_byte: u8,
    pub ok: bool,
}

pub static mut MAC: MacRec = MacRec {
    calls: 0, sha256: false, len: 0, b2: 0, b3: 0, probe: 0, probe_byte: 0, key_len: 0, key_probe: 0,
    key_probe_byte: 0, exp_len: 0, exp_probe: 0, exp_probe_byte: 0, ok: false,
};

fn mac_record(sha256: bool, data: &[u8], key: &[u8], expected: &[u8]) -> bool {
    unsafe {
        MAC.calls += 1;
        MAC.sha256 = sha256;
        MAC.len = data.len();
        if data.len() >= 4 {
            MAC.b2 = data[2];
            MAC.b3 = data[3];
        }
        if MAC.probe < data.len() {
            MAC.probe_byte = data[MAC.probe];
        }
        MAC.key_len = key.len();
        if MAC.key_probe < key.len() {
            MAC.key_probe_byte = key[MAC.key_probe];
        }
        MAC.exp_len = expected.len();
        if MAC.exp_probe < expected.len() {
            MAC.exp_probe_byte = expected[MAC.exp_probe];
        }
        let ok: bool = kani::any();
        MAC.ok = ok;
        ok
    }
}

/// replaces MessageIntegrity::verify
pub fn verify_sha1_stub(data: &[u8], key: &[u8], expected: &[u8; 20]) -> Result<(), StunParseError> {
    if mac_record(false, data, key, &expected[..]) {
        Ok(())
    } else {
        Err(StunParseError::IntegrityCheckFailed)
    }
}

/// replaces MessageIntegritySha256::verify
pub fn verify_sha256_stub(data: &[u8], key: &[u8], expected: &[u8]) -> Result<(), StunParseError> {
    if mac_record(true, data, key, expected) {
        Ok(())
    } else {
        Err(StunParseError::IntegrityCheckFailed)
    }
}

// ---------------------------------------------------------------------------------------------
// Memoising stubs for harnesses that run the builder AND the parser/validator on the same
// message: the hash is an uninterpreted function -- unconstrained output, but the same input
// gives the same output (one-entry memo per primitive, inputs up to MEMO bytes compared in full).

pub const MEMO: usize = 80;

pub struct Memo {
    pub have: bool,
    pub len: usize,
    pub data: [u8; MEMO],
    pub key_len: usize,
    pub key: [u8; 4],
    pub out: [u8; 32],
    pub calls: usize,
}

impl Memo {
    pub const fn new() -> Memo {
        Memo { have: false, len: 0, data: [0; MEMO], key_len: 0, key: [0; 4], out: [0; 32], calls: 0 }
    }
    fn matches(&self, data: &[u8], key: &[u8]) -> bool {
        if !self.have || self.len != data.len() || self.key_len != key.len() {
            return false;
        }
        let mut same = true;
        let mut i = 0;
        while i < MEMO {
            if i < data.len() && self.data[i] != data[i] {
                same = false;
            }
            i += 1;
        }
        let mut j = 0;
        while j < 4 {
            if j < key.len() && self.key[j] != key[j] {
                same = false;
            }
            j += 1;
        }
        same
    }
    fn store(&mut self, data: &[u8], key: &[u8], out: [u8; 32]) {
        assert!(data.len() <= MEMO && key.len() <= 4, "harness bound: memo input too long");
        self.have = true;
        self.len = data.len();
        let mut i = 0;
        while i < MEMO {
            if i < data.len() {
                self.data[i] = data[i];
            }
            i += 1;
        }
        self.key_len = key.len();
        let mut j = 0;
        while j < 4 {
            if j < key.len() {
                self.key[j] = key[j];
            }
            j += 1;
        }
        self.out = out;
    }
    /// value of the uninterpreted function at (data, key)
    fn eval(&mut self, data: &[u8], key: &[u8]) -> [u8; 32] {
        self.calls += 1;
        if self.matches(data, key) {
            return self.out;
        }
        let out: [u8; 32] = kani::any();
        self.store(data, key, out);
        out
    }
}

pub static mut M_CRC: Memo = Memo::new();
pub static mut M_SHA1: Memo = Memo::new();
pub static mut M_SHA256: Memo = Memo::new();

pub fn crc_memo_stub(data: &[u8]) -> [u8; 4] {
    let o = unsafe { M_CRC.eval(data, &[]) };
    [o[0], o[1], o[2], o[3]]
}

pub fn sha1_compute_memo_stub(data: &[u8], key: &[u8]) -> Result<[u8; 20], StunWriteError> {
    let o = unsafe { M_SHA1.eval(data, key) };
    let mut r = [0u8; 20];
    r.copy_from_slice(&o[..20]);
    Ok(r)
}

pub fn sha256_compute_memo_stub(data: &[u8], key: &[u8]) -> Result<[u8; 32], StunWriteError> {
    Ok(unsafe { M_SHA256.eval(data, key) })
}

pub fn sha1_verify_memo_stub(data: &[u8], key: &[u8], expected: &[u8; 20]) -> Result<(), StunParseError> {
    let o = unsafe { M_SHA1.eval(data, key) };
    let mut eq = true;
    let mut i = 0;
    while i < 20 {
        if o[i] != expected[i] {
            eq = false;
        }
        i += 1;
    }
    if eq { Ok(()) } else { Err(StunParseError::IntegrityCheckFailed) }
}

pub fn sha256_verify_memo_stub(data: &[u8], key: &[u8], expected: &[u8]) -> Result<(), StunParseError> {
    let o = unsafe { M_SHA256.eval(data, key) };
    let mut eq = expected.len() <= 32;
    let mut i = 0;
    while i < 32 {
        if i < expected.len() && o[i] != expected[i] {
            eq = false;
        }
        i += 1;
    }
    if eq { Ok(()) } else { Err(StunParseError::IntegrityCheckFailed) }
}

// ---------------------------------------------------------------------------------------------
// Recorder stubs for the two response constructors of the attribute-type policing
// (`Message::unknown_attributes`, `Message::bad_request`).  The policing *verdict*
// (`check_attribute_types`) is the real code; the constructors record their arguments and call the
// real `Message::builder_error` (so the documented panic of builder_error for a non-request is
// still reached) but do not add the SOFTWARE / ERROR-CODE / UNKNOWN-ATTRIBUTES attributes: that
// half (3.3 M symex steps) is decided on its own in c16_response_*_parses_back.

pub struct PoliceRec {
    pub ua_calls: usize,
    pub ua_n: usize,
    pub ua: [u16; 4],
    pub br_calls: usize,
}
pub static mut POLICE: PoliceRec = PoliceRec { ua_calls: 0, ua_n: 0, ua: [0; 4], br_calls: 0 };

pub fn unknown_attributes_stub<'a, 'b>(
    src: &stun_types::message::Message,
    attributes: &[stun_types::attribute::AttributeType],
) -> stun_types::message::MessageBuilder<'b>
where
    'a: 'a,
    'b: 'b,
{
    unsafe {
        POLICE.ua_calls += 1;
        POLICE.ua_n = attributes.len();
        let mut i = 0;
        while i < attributes.len() && i < 4 {
            POLICE.ua[i] = attributes[i].value();
            i += 1;
        }
    }
    stun_types::message::Message::builder_error(src)
}

pub fn bad_request_stub<'a, 'b>(src: &'a stun_types::message::Message) -> stun_types::message::MessageBuilder<'b>
where
    'a: 'a,
    'b: 'b,
{
    unsafe {
        POLICE.br_calls += 1;
    }
    stun_types::message::Message::builder_error(src)
}
