#!/usr/bin/env python3
"""Regenerate /verif/MANIFEST.json from lib/registry.py (claimed checks) and lib/na.json
(properties not claimed, with reason)."""
import json, os, sys
ROOT = os.path.dirname(os.path.dirname(os.path.abspath(__file__)))
sys.path.insert(0, os.path.join(ROOT, "lib"))
import registry

ALL = [json.loads(l)["id"] for l in open(os.path.join(ROOT, "properties.jsonl"))]
na_path = os.path.join(ROOT, "lib", "na.json")
NA = json.load(open(na_path)) if os.path.exists(na_path) else {}
hooks_path = os.path.join(ROOT, "lib", "hooks.json")
HOOKS = json.load(open(hooks_path)) if os.path.exists(hooks_path) else {"source_commits": []}

checks = []
for pid in ALL:
    if pid not in registry.PROPS:
        continue
    P = registry.PROPS[pid]
    engines = sorted(set(j["kind"] for j in P["jobs"]))
    checks.append({
        "property_id": pid,
        "quick_cmd": "./check %s --tier quick" % pid,
        "thorough_cmd": "./check %s --tier thorough" % pid,
        "evidence_file": "/verif/evidence/%s.json" % pid,
        "replay_cmd_template": "./check %s --replay {path}" % pid,
        "engine": "+".join("kani-cbmc" if e == "kani" else "mir-smt" for e in engines),
        "level_claimed": {
            "category": "model_checking",
            "text": P.get("level_text", "bounded model checking of the compiled Rust code: every harness is a SAT/SMT query over "
                    "symbolic inputs, so the verdict covers all inputs inside the stated bounds (" + P.get("bounds", "") + "); "
                    "nothing is claimed outside them"),
            "design_ref": "DESIGN.md section 4, " + pid,
        },
        "level_note": "trusted: Kani 0.68/CBMC 6.11/CaDiCaL (and z3/cvc5 for MIR kernels), rustc MIR; no-op tracing shim; portable hash "
                      "back-ends; stubs and assumptions listed in the evidence file. " + P.get("note", ""),
        "technique": P.get("technique", "bounded symbolic execution of the real code (Kani/CBMC), SAT verdict over all inputs within bounds, "
                     "unwinding assertions on, kani::cover! vacuity witnesses, native replay of counterexamples"),
    })
na = [{"property_id": pid, "reason": NA.get(pid, "check not built yet in this revision of /verif (planned, see DESIGN.md section 4)")}
      for pid in ALL if pid not in registry.PROPS]
man = {
    "version": 1,
    "setup_cmd": "./setup.sh",
    "hooks": {
        "guard": "cfg(kani)",
        "enable": "cargo kani sets --cfg kani for every crate it compiles (the harness crate /verif/kani has path dependencies on /repo/stun-types and /repo/stun-proto); the native replay crate sets it for the repository crates through /verif/replay/rustc-wrapper.sh",
        "baseline_off_cmd": "cd /repo && cargo test --workspace --no-fail-fast --offline",
        "source_commits": HOOKS.get("source_commits", []),
        "add_only": True,
    },
    "engines": [
        {"name": "kani-cbmc", "path": "/verif/kani", "serves_properties": [c["property_id"] for c in checks if "kani" in c["engine"]],
         "kind_free_text": "Kani 0.68 proof harnesses over kani::any() inputs, bit-blasted by CBMC 6.11 + CaDiCaL; out-of-tree crate with path deps on /repo"},
        {"name": "mir-smt", "path": "/verif/smt", "serves_properties": [c["property_id"] for c in checks if "mir-smt" in c["engine"]],
         "kind_free_text": "nightly MIR dump of /repo sliced to SMT-LIB2 bit-vector queries, decided by z3 and cross-checked with cvc5"},
    ],
    "checks": checks,
    "not_applicable": na,
    "notes": "All checks rebuild from /repo's working tree on every run. exit 0 = decided and held; 1 = VIOLATION (natively replayed); 2 = inconclusive (timeout, OOM, vacuous harness, non-reproducing counterexample) and is never a pass. Known findings: /verif/known_findings.json.",
}
json.dump(man, open(os.path.join(ROOT, "MANIFEST.json"), "w"), indent=1)
print("MANIFEST: %d checks, %d not_applicable" % (len(checks), len(na)))
