//! Native replay stand-in for the `kani` crate.
//!
//! `any::<T>()` pops the next value of the counterexample (file named by
//! `VERIF_REPLAY_VALUES`: one line per nondet value, bytes in hex, little endian as Kani prints
//! them).  `assume(false)` ends the run with exit status 77 (the counterexample does not
//! satisfy the harness assumptions natively = replay desync), running out of values or a size
//! mismatch ends it with exit status 78.
pub use kani_replay_macros::{proof, should_panic, solver, stub, unwind};

use std::cell::RefCell;
use std::collections::VecDeque;

thread_local! {
    static VALUES: RefCell<Option<VecDeque<Vec<u8>>>> = RefCell::new(None);
}

fn load() -> VecDeque<Vec<u8>> {
    let path = std::env::var("VERIF_REPLAY_VALUES").expect("VERIF_REPLAY_VALUES not set");
    let text = std::fs::read_to_string(path).expect("cannot read replay values");
    let mut q = VecDeque::new();
    for line in text.lines() {
        let line = line.trim();
        if line.starts_with('#') {
            continue;
        }
        let mut v = Vec::new();
        let b = line.as_bytes();
        let mut i = 0;
        while i + 1 < b.len() {
            v.push(u8::from_str_radix(&line[i..i + 2], 16).expect("hex"));
            i += 2;
        }
        q.push_back(v);
    }
    q
}

pub fn desync(msg: &str) -> ! {
    eprintln!("REPLAY-DESYNC: {msg}");
    std::process::exit(78);
}

pub fn next_bytes(n: usize) -> Vec<u8> {
    VALUES.with(|v| {
        let mut v = v.borrow_mut();
        if v.is_none() {
            *v = Some(load());
        }
        match v.as_mut().unwrap().pop_front() {
            None => desync("ran out of counterexample values"),
            Some(b) => {
                if b.len() != n {
                    desync(&format!("value size mismatch: want {n} have {}", b.len()));
                }
                b
            }
        }
    })
}

pub trait Arbitrary: Sized {
    fn any() -> Self;
}

macro_rules! int_arb {
    ($($t:ty),*) => {$(
        impl Arbitrary for $t {
            fn any() -> Self {
                let b = next_bytes(std::mem::size_of::<$t>());
                <$t>::from_le_bytes(b.try_into().unwrap())
            }
        }
    )*};
}
int_arb!(u8, u16, u32, u64, u128, usize, i8, i16, i32, i64, i128, isize);

impl Arbitrary for bool {
    fn any() -> Self {
        let b = next_bytes(1);
        if b[0] > 1 {
            // Kani's bool::any() assumes the byte is 0 or 1
            std::process::exit(77);
        }
        b[0] == 1
    }
}

// Kani draws arrays element by element
impl<T: Arbitrary, const N: usize> Arbitrary for [T; N] {
    fn any() -> Self {
        std::array::from_fn(|_| T::any())
    }
}

pub fn any<T: Arbitrary>() -> T {
    T::any()
}

pub fn assume(cond: bool) {
    if !cond {
        eprintln!("REPLAY-ASSUME-FALSE");
        std::process::exit(77);
    }
}

#[macro_export]
macro_rules! cover {
    ($($t:tt)*) => {{}};
}
