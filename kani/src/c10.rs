//! C10: only authenticated attributes are exposed after an integrity attribute.  The expected
//! exposure is an explicit table over the tails the parser can accept (written from the
//! statement, not derived from refdec's rule); refdec only supplies the TLV offsets.
use crate::c02::crc_oracle;
use crate::refdec::*;
use crate::stubs::*;
use crate::util::*;
use stun_types::attribute::*;
use stun_types::message::*;
use stun_types::prelude::*;

fn is_seal(t: u16) -> bool {
    t == T_MI || t == T_SHA || t == T_FP
}

/// `part`: 0 = all buffers; 1 / 2 = the buffers whose first attribute is / is not a seal attribute
/// (a two-way case split of the same claim, so that each solver query stays well inside the
/// 900 s budget of the quick tier; the split is decided from the raw bytes before parsing)
fn tail_rule<const N: usize>(part: u8) {
    prelude!(N, buf, len, probe, q, data, res, r);
    let first_is_seal = len >= 24 && is_seal(((buf[20] as u16) << 8) | buf[21] as u16);
    kani::assume(part == 0 || (part == 1) == first_is_seal);
    if let Ok(msg) = &res {
        if r.verdict == Verdict::Accept {
            // first seal attribute; everything before it is ordinary
            let mut s = r.n;
            let mut k = 0;
            while k < r.n {
                if is_seal(r.typ[k]) && s == r.n {
                    s = k;
                }
                k += 1;
            }
            let tl = r.n - s;
            assert!(tl <= 3, "C10:more-than-three-seal-attributes-accepted");
            let t0 = if tl > 0 { r.typ[s] } else { 0 };
            let t1 = if tl > 1 { r.typ[s + 1] } else { 0 };
            let t2 = if tl > 2 { r.typ[s + 2] } else { 0 };
            // (tail as accepted) -> which of its members are exposed
            let expect: [bool; 3] = if tl == 0 {
                [false, false, false]
            } else if tl == 1 {
                [true, false, false]
            } else if tl == 2 && t0 == T_MI && t1 == T_SHA {
                [true, true, false]
            } else if tl == 2 && t0 == T_SHA && t1 == T_MI {
                [true, false, false]
            } else if tl == 2 && (t0 == T_MI || t0 == T_SHA) && t1 == T_FP {
                [true, true, false]
            } else if tl == 3 && t0 == T_MI && t1 == T_SHA && t2 == T_FP {
                [true, true, true]
            } else if tl == 3 && t0 == T_SHA && t1 == T_MI && t2 == T_FP {
                [true, false, true]
            } else {
                assert!(false, "C10:tail-order-not-allowed-by-the-parser-rules");
                [false, false, false]
            };
            let mut it = msg.iter_attributes();
            let mut k = 0;
            while k < r.n {
                let want = k < s || expect[k - s];
                if want {
                    match it.next() {
                        None => {
                            assert!(r.typ[k] != T_FP, "C10:fingerprint-not-exposed");
                            assert!(k >= s, "C10:attribute-before-integrity-not-exposed");
                            assert!(false, "C10:authenticated-seal-not-exposed");
                        }
                        Some(a) => {
                            let same = a.get_type().value() == r.typ[k] && a.value.as_ptr() == data[r.off[k] + 4..].as_ptr();
                            if !same {
                                assert!(k >= s, "C10:attribute-before-integrity-not-exposed");
                                assert!(false, "C10:unauthenticated-attribute-exposed");
                            }
                        }
                    }
                }
                k += 1;
            }
            assert!(it.next().is_none(), "C10:unauthenticated-attribute-exposed");
            kani::cover!(part == 2 || (tl == 3 && t0 == T_MI));
            kani::cover!(part == 2 || (tl == 3 && t0 == T_SHA && s == 0));
            kani::cover!(part == 2 || (tl == 2 && t0 == T_SHA && t1 == T_MI));
            kani::cover!(part == 1 || (tl == 2 && s >= 1 && t1 == T_FP));
        }
    }
}

#[kani::proof]
#[kani::unwind(6)]
#[kani::stub(stun_types::attribute::Fingerprint::compute, crc_stub)]
fn c10_tail_36() {
    tail_rule::<36>(0);
}

#[kani::proof]
#[kani::unwind(6)]
#[kani::stub(stun_types::attribute::Fingerprint::compute, crc_stub)]
fn c10_tail_36_seal_first() {
    tail_rule::<36>(1);
}

#[kani::proof]
#[kani::unwind(6)]
#[kani::stub(stun_types::attribute::Fingerprint::compute, crc_stub)]
fn c10_tail_36_ordinary_first() {
    tail_rule::<36>(2);
}

#[kani::proof]
#[kani::unwind(7)]
#[kani::stub(stun_types::attribute::Fingerprint::compute, crc_stub)]
fn c10_tail_40() {
    tail_rule::<40>(0);
}

/// b[i] = a[i] for i < cut except the length field (own function: its loop gets its own unwind
/// bound through --unwindset)
fn splice<const N: usize>(a: &[u8; N], b: &mut [u8; N], cut: usize) {
    let mut i = 0;
    while i < N {
        if i < cut && i != 2 && i != 3 {
            b[i] = a[i];
        }
        i += 1;
    }
}

/// Replacing the bytes after the first integrity attribute never changes what is exposed before
/// it: two buffers that agree up to the end of the first integrity attribute of the first one.
fn two_buffers<const N: usize>() {
    let a: [u8; N] = kani::any();
    let mut b: [u8; N] = kani::any();
    let la: usize = kani::any();
    let lb: usize = kani::any();
    kani::assume(la <= N && lb <= N);
    let crc_free: [u8; 4] = kani::any();
    let da = &a[..la];
    let ra = refdec(da, |off| crc_oracle(da, off, crc_free));
    kani::assume(!ra.overflow && ra.verdict == Verdict::Accept && ra.excess == 0);
    // first integrity attribute of a
    let mut s = ra.n;
    let mut k = 0;
    while k < ra.n {
        if (ra.typ[k] == T_MI || ra.typ[k] == T_SHA) && s == ra.n {
            s = k;
        }
        k += 1;
    }
    kani::assume(s < ra.n);
    let cut = ra.off[s] + 4 + pad4(ra.alen[s]);
    kani::assume(lb >= cut);
    // b agrees with a up to `cut` except for the length field (its tail may differ in size)
    splice(&a, &mut b, cut);
    let db = &b[..lb];
    let ma = Message::from_bytes(da);
    let mb = Message::from_bytes(db);
    if let (Ok(ma), Ok(mb)) = (&ma, &mb) {
        let mut ia = ma.iter_attributes();
        let mut ib = mb.iter_attributes();
        let mut k = 0;
        while k <= s {
            match (ia.next(), ib.next()) {
                (Some(x), Some(y)) => {
                    assert!(x.get_type() == y.get_type() && x.value.len() == y.value.len(), "C10:tail-bytes-change-attributes-before-integrity");
                    assert!(x.value.as_ptr() as usize - da.as_ptr() as usize == y.value.as_ptr() as usize - db.as_ptr() as usize, "C10:tail-bytes-change-attributes-before-integrity");
                }
                _ => assert!(false, "C10:tail-bytes-change-attributes-before-integrity"),
            }
            k += 1;
        }
        kani::cover!(s >= 1 && lb > la);
    }
}

#[kani::proof]
#[kani::unwind(5)]
#[kani::stub(stun_types::attribute::Fingerprint::compute, crc_stub)]
fn c10_two_buffers_32() {
    two_buffers::<32>();
}
