//! C04: integrity -- what is handed to the MAC (validation and builder), and the MAC compare.
//! The HMAC itself is split off (recorder stubs); its values for fixed inputs come from an
//! independent implementation (CPython hmac/hashlib, embedded as constants).
use crate::c02::crc_oracle;
use crate::refdec::*;
use crate::stubs::*;
use crate::util::*;
use stun_types::attribute::*;
use stun_types::message::*;
use stun_types::prelude::*;

const DATA28: [u8; 28] = [1, 2, 3, 4, 5, 6, 7, 8, 9, 10, 11, 12, 13, 14, 15, 16, 17, 18, 19, 20, 21, 22, 23, 24, 25, 26, 27, 28];
// HMAC-SHA1 / HMAC-SHA256 of DATA28 under key "pw" (python3: hmac.new(b"pw", bytes(range(1,29)), ...))
const SHA1_PW: [u8; 20] = [0xa2, 0x8e, 0x58, 0x59, 0x48, 0x84, 0x7e, 0x83, 0x6f, 0xea, 0x32, 0x1a, 0x97, 0x7f, 0x2b, 0x9e, 0xef, 0x36, 0xff, 0xa9];
const SHA256_PW: [u8; 32] = [0xd4, 0x2d, 0xbe, 0xcf, 0xa0, 0x22, 0xd2, 0xe0, 0x6b, 0x06, 0xc0, 0x8a, 0x1c, 0x5e, 0x5b, 0x46, 0x53, 0x1e, 0xf1, 0x35, 0x85, 0xe7, 0x7b, 0xd3, 0x78, 0x5b, 0x9b, 0x61, 0x01, 0x4d, 0x14, 0xf8];
// MD5("user:realm:pass")
const MD5_LT: [u8; 16] = [0x84, 0x93, 0xfb, 0xc5, 0x3b, 0xa5, 0x82, 0xfb, 0x4c, 0x04, 0x4c, 0x45, 0x6b, 0xdc, 0x40, 0xeb];

/// c: the SHA-1 compare -- for ALL 2^160 expected values: verify is Ok iff expected == HMAC
#[kani::proof]
#[kani::unwind(70)]
fn c04_verify_sha1_all_expected() {
    let e: [u8; 20] = kani::any();
    let r = MessageIntegrity::verify(&DATA28, b"pw", &e);
    assert!(r.is_ok() == (e == SHA1_PW), "C04:sha1-verify-is-not-equality-with-the-hmac");
    assert!(MessageIntegrity::compute(&DATA28, b"pw").unwrap() == SHA1_PW, "C04:sha1-compute-differs-from-independent-hmac");
    kani::cover!(r.is_ok());
    kani::cover!(r.is_err());
}

/// c: the SHA-256 compare with truncation -- for all expected values of each allowed length
#[kani::proof]
#[kani::unwind(70)]
fn c04_verify_sha256_all_expected() {
    let e: [u8; 32] = kani::any();
    let q: usize = kani::any();
    kani::assume(q >= 4 && q <= 8);
    let len = 4 * q;
    let r = MessageIntegritySha256::verify(&DATA28, b"pw", &e[..len]);
    let mut eq = true;
    let mut i = 0;
    while i < 32 {
        if i < len && e[i] != SHA256_PW[i] {
            eq = false;
        }
        i += 1;
    }
    assert!(r.is_ok() == eq, "C04:sha256-verify-is-not-equality-with-the-truncated-hmac");
    assert!(MessageIntegritySha256::compute(&DATA28, b"pw").unwrap() == SHA256_PW, "C04:sha256-compute-differs-from-independent-hmac");
    kani::cover!(r.is_ok() && len == 16);
    kani::cover!(r.is_ok() && len == 32);
    kani::cover!(r.is_err());
}

fn short_creds(pw: &[u8; 3], n: usize) -> MessageIntegrityCredentials {
    let s = unsafe { std::str::from_utf8_unchecked(&pw[..n]) };
    ShortTermCredentials::new(s.to_owned()).into()
}

/// a: validation hands the right bytes, key and expected value to the MAC, and turns the MAC's
/// verdict into its own.  Symbolic accepted message (<= 2 attributes, up to 64 bytes), symbolic
/// short-term password of 0..=3 ASCII bytes.
fn validate_record<const N: usize>() {
    let mut buf: [u8; N] = kani::any();
    let len: usize = kani::any();
    kani::assume(len <= N);
    let probe: usize = kani::any();
    let kprobe: usize = kani::any();
    let eprobe: usize = kani::any();
    let crc_free: [u8; 4] = kani::any();
    let pw: [u8; 3] = kani::any();
    let pn: usize = kani::any();
    kani::assume(pn <= 3 && pw[0] < 0x80 && pw[1] < 0x80 && pw[2] < 0x80);
    if NATIVE {
        native_realize(&mut buf, len, &pw[..pn], realize_mask());
    }
    unsafe {
        CRC.probe = probe;
        MAC.probe = probe;
        MAC.key_probe = kprobe;
        MAC.exp_probe = eprobe;
    }
    let data = &buf[..len];
    let r = refdec(data, |off| crc_oracle(data, off, crc_free));
    // shape bound, assumed BEFORE parsing so that the walk loops are bounded by it
    // (no FINGERPRINT in this harness: the reference decoder runs BEFORE the parser here, so its CRC
    // oracle could not see the value the recorder stub later hands to the parser; a FINGERPRINT
    // plays no part in integrity validation)
    kani::assume(!r.overflow && r.verdict == Verdict::Accept && r.excess == 0 && r.n <= 2 && r.fp_off.is_none());
    let msg = match Message::from_bytes(data) {
        Ok(m) => m,
        Err(_) => {
            assert!(false, "C04:well-formed-message-refused");
            return;
        }
    };
    let creds = short_creds(&pw, pn);
    let res = msg.validate_integrity(&creds);
    // exposed integrity attributes (C10 rule, from refdec)
    let mut mi: Option<usize> = None;
    let mut sha: Option<usize> = None;
    let mut k = 0;
    while k < r.n {
        if r.exposed[k] && r.typ[k] == T_MI && mi.is_none() {
            mi = Some(k);
        }
        if r.exposed[k] && r.typ[k] == T_SHA && sha.is_none() {
            sha = Some(k);
        }
        k += 1;
    }
    if mi.is_none() && sha.is_none() {
        assert!(matches!(res, Err(StunParseError::MissingAttribute(_))), "C04:message-without-integrity-not-reported-as-missing");
    }
    if NATIVE {
        if res.is_ok() {
            assert!(mi.is_some() || sha.is_some(), "C04:validated-without-integrity-attribute");
        }
        return;
    }
    let calls = unsafe { MAC.calls };
    if calls == 0 {
        assert!(res.is_err(), "C04:validated-without-consulting-the-mac");
        // the MAC may only be skipped when the attribute to check is malformed
        let k = if let Some(k) = sha { Some(k) } else { mi };
        if let Some(k) = k {
            let l = r.alen[k];
            let wellformed = if r.typ[k] == T_MI { l == 20 } else { l >= 16 && l <= 32 && l % 4 == 0 };
            assert!(!wellformed || (sha.is_some() && mi.is_some()), "C04:integrity-attribute-present-but-mac-not-consulted");
        }
    } else {
        assert!(calls == 1, "C04:mac-consulted-more-than-once");
        let (ok, is256, dlen, b2, b3, pb, klen, kb, elen, eb) = unsafe {
            (MAC.ok, MAC.sha256, MAC.len, MAC.b2, MAC.b3, MAC.probe_byte, MAC.key_len, MAC.key_probe_byte, MAC.exp_len, MAC.exp_probe_byte)
        };
        // the attribute that was checked: an exposed integrity attribute of the reported algorithm
        let k = if is256 { sha } else { mi };
        match k {
            None => assert!(false, "C04:mac-consulted-for-an-attribute-that-is-not-exposed"),
            Some(k) => {
                let off = r.off[k];
                assert!(dlen == off, "C04:hmac-input-is-not-the-message-up-to-the-integrity-attribute");
                let l = off + 4 + r.alen[k] - 20;
                assert!(b2 == (l >> 8) as u8 && b3 == l as u8, "C04:hmac-input-length-field-does-not-end-at-the-integrity-attribute");
                if probe < off && probe != 2 && probe != 3 {
                    assert!(pb == data[probe], "C04:hmac-input-bytes-modified");
                }
                assert!(elen == r.alen[k], "C04:expected-hmac-is-not-the-attribute-value");
                if eprobe < elen {
                    assert!(eb == data[off + 4 + eprobe], "C04:expected-hmac-is-not-the-attribute-value");
                }
                // every exposed non-seal attribute lies inside the authenticated range (C10)
                let mut j = 0;
                while j < r.n {
                    if r.exposed[j] && r.typ[j] != T_MI && r.typ[j] != T_SHA && r.typ[j] != T_FP {
                        assert!(r.off[j] + 4 + pad4(r.alen[j]) <= dlen, "C04:exposed-attribute-outside-the-authenticated-range");
                    }
                    j += 1;
                }
            }
        }
        // short-term key = the password bytes
        assert!(klen == pn, "C04:short-term-key-is-not-the-password");
        if kprobe < pn {
            assert!(kb == pw[kprobe], "C04:short-term-key-is-not-the-password");
        }
        match &res {
            Ok(a) => {
                assert!(ok, "C04:validated-although-the-mac-refused");
                assert!((*a == IntegrityAlgorithm::Sha256) == is256, "C04:reported-algorithm-is-not-the-one-checked");
            }
            Err(_) => assert!(!ok, "C04:validation-failed-although-the-mac-accepted"),
        }
    }
    kani::cover!(res.is_ok() && mi.is_some() && sha.is_none());
    kani::cover!(N < 64 || (res.is_ok() && sha.is_some() && mi.is_some()));
    kani::cover!(res.is_ok() && sha.is_some() && r.alen[sha.unwrap()] == 16 && r.n == 2);
    kani::cover!(calls == 1 && res.is_err());
    kani::cover!(calls == 0 && mi.is_some());
}

macro_rules! vr {
    ($name:ident, $N:expr) => {
        #[kani::proof]
        #[kani::unwind(5)]
        #[kani::stub(stun_types::attribute::Fingerprint::compute, crc_stub)]
        #[kani::stub(stun_types::attribute::MessageIntegrity::verify, verify_sha1_stub)]
        #[kani::stub(stun_types::attribute::MessageIntegritySha256::verify, verify_sha256_stub)]
        fn $name() {
            validate_record::<$N>();
        }
    };
}
// 64 bytes: fits [MESSAGE-INTEGRITY, SHA256 truncated to 16]; 44 bytes (quick tier): [MESSAGE-INTEGRITY],
// [X, SHA256 of 16 bytes], [SHA256 of 16/20 bytes]
vr!(c04_validate_record, 64);
vr!(c04_validate_record_44, 44);

/// a: long-term key = MD5(user ":" realm ":" password) -- concrete credentials, message
/// [MESSAGE-INTEGRITY] with symbolic value; key compared with the independent MD5
#[kani::proof]
#[kani::unwind(70)]
#[kani::stub(stun_types::attribute::MessageIntegrity::verify, verify_sha1_stub)]
fn c04_long_term_key() {
    let kprobe: usize = kani::any();
    kani::assume(kprobe < 16);
    unsafe {
        MAC.key_probe = kprobe;
    }
    let mut buf = [0u8; 44];
    buf[3] = 24;
    buf[4] = 0x21;
    buf[5] = 0x12;
    buf[6] = 0xa4;
    buf[7] = 0x42;
    buf[21] = 0x08;
    buf[23] = 20;
    let v: [u8; 20] = kani::any();
    buf[24..44].copy_from_slice(&v);
    let msg = Message::from_bytes(&buf).unwrap();
    let creds: MessageIntegrityCredentials = LongTermCredentials::new("user".to_owned(), "pass".to_owned(), "realm".to_owned()).into();
    let res = msg.validate_integrity(&creds);
    if NATIVE {
        return;
    }
    unsafe {
        assert!(MAC.calls == 1 && MAC.key_len == 16, "C04:long-term-key-is-not-md5-user-realm-password");
        assert!(MAC.key_probe_byte == MD5_LT[kprobe], "C04:long-term-key-is-not-md5-user-realm-password");
        assert!(res.is_ok() == MAC.ok, "C04:validation-verdict-is-not-the-mac-verdict");
    }
}

/// quick-tier validation harnesses with a FIXED attribute skeleton (types and lengths are literals,
/// every other byte -- class/method bits, id, ordinary value, HMAC value -- symbolic) and a symbolic
/// short-term password: which attribute reaches the MAC, HMAC input = message up to it with the
/// length field ending at it, expected = its value, key = password, verdict = MAC verdict.
/// $pre = value bytes of a leading ordinary attribute (0 = none), $ty/$len = the integrity attribute.
macro_rules! vfix {
    ($name:ident, $pre:expr, $ty:expr, $len:expr) => {
        #[kani::proof]
        #[kani::unwind(5)]
        #[kani::stub(stun_types::attribute::Fingerprint::compute, crc_stub)]
        #[kani::stub(stun_types::attribute::MessageIntegrity::verify, verify_sha1_stub)]
        #[kani::stub(stun_types::attribute::MessageIntegritySha256::verify, verify_sha256_stub)]
        fn $name() {
            const PRE: usize = if $pre == 0 { 0 } else { 4 + (($pre + 3) & !3) };
            const OFF: usize = 20 + PRE;
            const N: usize = OFF + 4 + $len;
            let mut buf: [u8; N] = kani::any();
            let probe: usize = kani::any();
            let kprobe: usize = kani::any();
            let eprobe: usize = kani::any();
            let pw: [u8; 3] = kani::any();
            let pn: usize = kani::any();
            kani::assume(pn <= 3 && pw[0] < 0x80 && pw[1] < 0x80 && pw[2] < 0x80);
            kani::assume(buf[0] & 0xc0 == 0);
            buf[2] = ((N - 20) >> 8) as u8;
            buf[3] = (N - 20) as u8;
            buf[4] = 0x21;
            buf[5] = 0x12;
            buf[6] = 0xa4;
            buf[7] = 0x42;
            if PRE > 0 {
                buf[20] = 0x7f;
                buf[21] = 0x01;
                buf[22] = 0;
                buf[23] = $pre as u8;
            }
            buf[OFF] = ($ty >> 8) as u8;
            buf[OFF + 1] = $ty as u8;
            buf[OFF + 2] = 0;
            buf[OFF + 3] = $len as u8;
            if NATIVE {
                native_realize(&mut buf, N, &pw[..pn], realize_mask());
            }
            unsafe {
                MAC.probe = probe;
                MAC.key_probe = kprobe;
                MAC.exp_probe = eprobe;
            }
            let msg = match Message::from_bytes(&buf) {
                Ok(m) => m,
                Err(_) => {
                    assert!(false, "C04:well-formed-message-refused");
                    return;
                }
            };
            let creds = short_creds(&pw, pn);
            let res = msg.validate_integrity(&creds);
            if NATIVE {
                return;
            }
            let (calls, ok, is256, dlen, b2, b3, pb, klen, kb, elen, eb) = unsafe {
                (MAC.calls, MAC.ok, MAC.sha256, MAC.len, MAC.b2, MAC.b3, MAC.probe_byte, MAC.key_len, MAC.key_probe_byte, MAC.exp_len, MAC.exp_probe_byte)
            };
            assert!(calls == 1, "C04:integrity-attribute-present-but-mac-not-consulted");
            assert!(is256 == ($ty == 0x001C), "C04:mac-consulted-for-an-attribute-that-is-not-exposed");
            assert!(dlen == OFF, "C04:hmac-input-is-not-the-message-up-to-the-integrity-attribute");
            let l = OFF + 4 + $len - 20;
            assert!(b2 == (l >> 8) as u8 && b3 == l as u8, "C04:hmac-input-length-field-does-not-end-at-the-integrity-attribute");
            if probe < OFF && probe != 2 && probe != 3 {
                assert!(pb == buf[probe], "C04:hmac-input-bytes-modified");
            }
            assert!(elen == $len, "C04:expected-hmac-is-not-the-attribute-value");
            if eprobe < $len {
                assert!(eb == buf[OFF + 4 + eprobe], "C04:expected-hmac-is-not-the-attribute-value");
            }
            assert!(klen == pn, "C04:short-term-key-is-not-the-password");
            if kprobe < pn {
                assert!(kb == pw[kprobe], "C04:short-term-key-is-not-the-password");
            }
            match &res {
                Ok(a) => {
                    assert!(ok, "C04:validated-although-the-mac-refused");
                    assert!((*a == IntegrityAlgorithm::Sha256) == is256, "C04:reported-algorithm-is-not-the-one-checked");
                }
                Err(_) => assert!(!ok, "C04:validation-failed-although-the-mac-accepted"),
            }
            kani::cover!(res.is_ok());
            kani::cover!(res.is_err());
        }
    };
}
vfix!(c04_validate_fixed_sha256_16, 0, 0x001Cu16, 16);
vfix!(c04_validate_fixed_sha256_32, 0, 0x001Cu16, 32);
vfix!(c04_validate_fixed_x3_sha256_20, 3, 0x001Cu16, 20);
vfix!(c04_validate_fixed_mi, 0, 0x0008u16, 20);
vfix!(c04_validate_fixed_x5_mi, 5, 0x0008u16, 20);
