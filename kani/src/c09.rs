//! C09: FINGERPRINT is the RFC CRC; corrupting a fingerprinted message gets it rejected.
use crate::refdec::*;
use crate::util::*;
use stun_types::attribute::*;
use stun_types::message::*;
use stun_types::prelude::*;

macro_rules! crc_eq {
    ($name:ident, $N:expr, $unw:expr) => {
        /// the table-driven CRC of the crc crate == bitwise reflected CRC-32/ISO-HDLC for every
        /// byte string of length 0..=N
        #[kani::proof]
        #[kani::unwind($unw)]
        fn $name() {
            let d: [u8; $N] = kani::any();
            let len: usize = kani::any();
            kani::assume(len <= $N);
            let got = u32::from_be_bytes(Fingerprint::compute(&d[..len]));
            assert!(got == crc32_ref(&d[..len]), "C09:crc-is-not-crc32-iso-hdlc");
            kani::cover!(len == $N);
            kani::cover!(len == 0);
        }
    };
}
crc_eq!(c09_crc_8, 8, 10);
crc_eq!(c09_crc_16, 16, 18);
crc_eq!(c09_crc_28, 28, 30);

/// check value of the catalogue entry: CRC-32/ISO-HDLC("123456789") = 0xcbf43926
#[kani::proof]
#[kani::unwind(11)]
fn c09_crc_check_value() {
    let d = *b"123456789";
    assert!(u32::from_be_bytes(Fingerprint::compute(&d)) == 0xcbf4_3926, "C09:crc-check-value");
    assert!(crc32_ref(&d) == 0xcbf4_3926, "C09:reference-crc-check-value");
}

/// wire value = CRC xor 0x5354554e, both directions
#[kani::proof]
#[kani::unwind(6)]
fn c09_xor_constant() {
    let c: u32 = kani::any();
    let f = Fingerprint::new(c.to_be_bytes());
    let r = f.to_raw();
    assert!(r.get_type() == AttributeType::new(0x8028) && r.value.len() == 4, "C09:fingerprint-type-and-length");
    let w = u32::from_be_bytes([r.value[0], r.value[1], r.value[2], r.value[3]]);
    assert!(w == c ^ 0x5354_554e, "C09:fingerprint-xor-constant");
    let mut dest = [0u8; 8];
    f.write_into(&mut dest).unwrap();
    assert!(dest[0] == 0x80 && dest[1] == 0x28 && dest[2] == 0 && dest[3] == 4, "C09:fingerprint-header");
    assert!(u32::from_be_bytes([dest[4], dest[5], dest[6], dest[7]]) == c ^ 0x5354_554e, "C09:fingerprint-xor-constant");
    let back = Fingerprint::from_raw(&r).unwrap();
    assert!(u32::from_be_bytes(*back.fingerprint()) == c, "C09:fingerprint-xor-constant");
}

/// Builder side with the REAL CRC: the FINGERPRINT appended to a message with one symbolic
/// 4-byte attribute equals crc32_ref(message up to the attribute, length covering it) ^ constant,
/// and the parser accepts the result.
#[kani::proof]
#[kani::unwind(30)]
fn c09_builder_fingerprint_real_crc() {
    let (c, m, mt) = any_mtype();
    let t: u128 = kani::any();
    let val: [u8; 4] = kani::any();
    let mut b = Message::builder(mt, t.into());
    b.add_raw_attribute(RawAttribute::new(AttributeType::new(0x7f02), &val)).unwrap();
    b.add_fingerprint().unwrap();
    let mut out = [0u8; 36];
    let n = b.write_into(&mut out).unwrap();
    assert!(n == 36, "C09:fingerprinted-message-length");
    assert!(be16(&out, 2) == 16, "C09:length-field-covers-fingerprint");
    assert!(out[28] == 0x80 && out[29] == 0x28 && out[30] == 0 && out[31] == 4, "C09:fingerprint-is-last-attribute");
    let want = crc32_ref(&out[..28]) ^ 0x5354_554e;
    assert!(u32::from_be_bytes([out[32], out[33], out[34], out[35]]) == want, "C09:builder-fingerprint-is-not-the-rfc-crc");
    kani::cover!(c == 3 && m == 0xfff);
}

/// Parser side with the REAL CRC on a concrete-structure message: [hdr, one 4-byte attribute, FP]
/// with symbolic content; accepted iff the CRC value is the RFC one for its own bytes.
#[kani::proof]
#[kani::unwind(30)]
fn c09_parser_fingerprint_real_crc() {
    let mut b: [u8; 36] = kani::any();
    // fix the structure, leave type bits, id, attribute type/value and the CRC value symbolic
    b[0] &= 0x3f;
    b[2] = 0;
    b[3] = 16;
    b[4] = 0x21;
    b[5] = 0x12;
    b[6] = 0xa4;
    b[7] = 0x42;
    b[22] = 0;
    b[23] = 4;
    kani::assume(!(b[20] == 0x80 && b[21] == 0x28) && !(b[20] == 0 && b[21] == 0x08) && !(b[20] == 0 && b[21] == 0x1c));
    b[28] = 0x80;
    b[29] = 0x28;
    b[30] = 0;
    b[31] = 4;
    let want = crc32_ref(&b[..28]) ^ 0x5354_554e;
    let have = u32::from_be_bytes([b[32], b[33], b[34], b[35]]);
    match Message::from_bytes(&b) {
        Ok(msg) => {
            assert!(have == want, "C09:corrupted-fingerprinted-message-accepted");
            assert!(msg.has_attribute(AttributeType::new(0x8028)), "C09:fingerprint-not-exposed");
        }
        Err(StunParseError::FingerprintMismatch) => assert!(have != want, "C09:valid-fingerprint-refused"),
        Err(_) => assert!(false, "C09:unexpected-rejection-cause"),
    }
    kani::cover!(have == want);
    kani::cover!(have != want);
}
