#!/usr/bin/env python3
"""Engine B: MIR -> SMT-LIB2 for the 64 KiB integer kernels (DESIGN 1, C01-D).

The nightly MIR dump of /repo (overflow checks on) is regenerated on every run.  For every
checked-arithmetic site (`XWithOverflow` + `assert(!_.1)`) and every narrowing integer cast in the
configured functions, the operands are sliced backwards through single-definition locals to root
variables (arguments, call results, loop-carried locals), giving a bit-vector term of the source
widths.  The solver is asked whether the site can overflow / truncate for root values inside the
ranges of smt/contracts.json.  unsat from z3 AND cvc5 = holds within the ranges; sat = a model
that is replayed natively through the site's generator before anything is reported.
"""
import json
import os
import re
import subprocess
import sys
import time

ROOT = os.path.dirname(os.path.dirname(os.path.abspath(__file__)))
OUT = os.path.join(ROOT, "out")
WIDTH = {"usize": 64, "u64": 64, "u32": 32, "u16": 16, "u8": 8, "u128": 128, "isize": 64, "i64": 64, "i32": 32}


def dump_mir(crate):
    os.makedirs(OUT, exist_ok=True)
    out = os.path.join(OUT, crate.replace("-", "_") + ".mir")
    src = "/repo/%s/src/lib.rs" % crate
    os.utime(src, None) if False else None
    env = dict(os.environ, CARGO_NET_OFFLINE="true")
    # a separate target dir keeps /repo/target untouched; touching nothing in /repo
    tdir = os.path.join(OUT, "mir-target")
    # force re-emission: remove the crate's fingerprint so that rustc runs again
    subprocess.run("rm -rf %s/debug/.fingerprint/%s-*" % (tdir, crate), shell=True)
    cmd = ["cargo", "+nightly", "rustc", "--offline", "-p", crate, "--lib", "--target-dir", tdir, "--",
           "-Zunpretty=mir", "-C", "debug-assertions=off", "-C", "overflow-checks=on"]
    p = subprocess.run(cmd, cwd="/repo", env=env, stdout=subprocess.PIPE, stderr=subprocess.PIPE, text=True, timeout=1800)
    if p.returncode != 0 or "fn " not in p.stdout:
        raise RuntimeError("MIR dump failed: " + p.stderr[-2000:])
    open(out, "w").write(p.stdout)
    return p.stdout


class Fn:
    def __init__(self, name, header):
        self.name = name
        self.header = header
        self.types = {}
        self.debug = {}
        self.defs = {}    # local -> [rvalue text]
        self.stmts = []   # (lineno, text)


FN_RE = re.compile(r"^fn (.*?)\((.*)\) -> (.*) \{$")


def parse(mir):
    fns = []
    cur = None
    for ln, line in enumerate(mir.splitlines(), 1):
        m = FN_RE.match(line)
        if m:
            full = m.group(1)
            simple = full.split("::")[-1]
            cur = Fn(full, line)
            cur.simple = simple
            for am in re.finditer(r"(_\d+): ([^,)]+)", m.group(2)):
                cur.types[am.group(1)] = am.group(2).strip()
            fns.append(cur)
            continue
        if cur is None:
            continue
        if line == "}":
            cur = None
            continue
        s = line.strip()
        m = re.match(r"debug (\w+) => (_\d+);", s)
        if m:
            cur.debug.setdefault(m.group(2), m.group(1))
            continue
        m = re.match(r"let (?:mut )?(_\d+): (.*);", s)
        if m:
            cur.types[m.group(1)] = m.group(2)
            continue
        m = re.match(r"(_\d+) = (.*?)(?: -> \[.*\])?;$", s)
        if m:
            cur.defs.setdefault(m.group(1), []).append(m.group(2))
        cur.stmts.append((ln, s))
    return fns


def consts_from_source():
    vals = {}
    for path in ("/repo/stun-types/src/message.rs", "/repo/stun-types/src/attribute/mod.rs", "/repo/stun-proto/src/agent.rs"):
        try:
            src = open(path).read()
        except OSError:
            continue
        for m in re.finditer(r"const (\w+): (\w+) = (0x[0-9a-fA-F_]+|\d[\d_]*);", src):
            vals[m.group(1)] = int(m.group(3).replace("_", ""), 0)
    return vals


class Enc:
    def __init__(self, fn, consts):
        self.fn = fn
        self.consts = consts
        self.roots = {}   # symbol -> (width, description)
        self.depth = 0

    def width_of_local(self, loc):
        t = self.fn.types.get(loc, "usize")
        return WIDTH.get(t.strip(), None)

    def root(self, loc, desc, width):
        name = self.fn.debug.get(loc)
        sym = "%s__%s" % (self.fn.simple, name if name else "l" + loc[1:])
        self.roots[sym] = (width, desc)
        return sym

    def operand(self, op, want=None):
        op = op.strip()
        m = re.match(r"const (-?\d+)_(\w+)$", op)
        if m:
            w = WIDTH[m.group(2)]
            return "(_ bv%d %d)" % (int(m.group(1)) % (1 << w), w), w
        m = re.match(r"const (.+)$", op)
        if m:
            nm = m.group(1).split("::")[-1]
            if nm in self.consts:
                w = want or 64
                return "(_ bv%d %d)" % (self.consts[nm], w), w
            raise ValueError("unknown constant " + op)
        m = re.match(r"(?:copy|move) \((_\d+)\.0: (\w+)\)$", op)
        if m:
            return self.local_field0(m.group(1), WIDTH[m.group(2)])
        m = re.match(r"(?:copy|move) (_\d+)$", op)
        if m:
            return self.local(m.group(1))
        raise ValueError("operand form " + op)

    def local_field0(self, loc, w):
        ds = self.fn.defs.get(loc, [])
        if len(ds) == 1:
            m = re.match(r"(Add|Sub|Mul)WithOverflow\((.*), (.*)\)$", ds[0])
            if m:
                a, wa = self.operand(m.group(2), w)
                b, wb = self.operand(m.group(3), wa)
                op = {"Add": "bvadd", "Sub": "bvsub", "Mul": "bvmul"}[m.group(1)]
                return "(%s %s %s)" % (op, a, b), wa
        return self.root(loc, "tuple local", w), w

    def local(self, loc):
        w = self.width_of_local(loc)
        ds = self.fn.defs.get(loc, [])
        self.depth += 1
        try:
            if len(ds) == 1 and self.depth < 40 and w is not None:
                rv = ds[0]
                m = re.match(r"(?:copy|move) ", rv)
                if m or rv.startswith("const "):
                    try:
                        return self.operand(rv, w)
                    except ValueError:
                        pass
                m = re.match(r"(.*) as (\w+) \(IntToInt\)$", rv)
                if m and m.group(2) in WIDTH:
                    try:
                        a, wa = self.operand(m.group(1))
                    except ValueError:
                        a = None
                    if a is not None:
                        wt = WIDTH[m.group(2)]
                        if wt == wa:
                            return a, wt
                        if wt < wa:
                            return "((_ extract %d 0) %s)" % (wt - 1, a), wt
                        return "((_ zero_extend %d) %s)" % (wt - wa, a), wt
                m = re.match(r"(Add|Sub|Mul|Rem|Div|BitAnd|BitOr|Shl|Shr)\((.*), (.*)\)$", rv)
                if m:
                    try:
                        a, wa = self.operand(m.group(2), w)
                        b, wb = self.operand(m.group(3), wa)
                        op = {"Add": "bvadd", "Sub": "bvsub", "Mul": "bvmul", "Rem": "bvurem", "Div": "bvudiv", "BitAnd": "bvand",
                              "BitOr": "bvor", "Shl": "bvshl", "Shr": "bvlshr"}[m.group(1)]
                        if wb < wa:
                            b = "((_ zero_extend %d) %s)" % (wa - wb, b)
                        elif wb > wa:
                            b = "((_ extract %d 0) %s)" % (wa - 1, b)
                        return "(%s %s %s)" % (op, a, b), wa
                    except ValueError:
                        pass
                # call result: root described by the callee
                m = re.match(r"(.*?)\((.*)\)$", rv)
                if m and not rv.startswith("("):
                    callee = re.sub(r"<.*?>", "", m.group(1)).split("::")[-1].strip()
                    sym = "%s__call_%s_%s" % (self.fn.simple, re.sub(r"\W", "_", callee), loc[1:])
                    self.roots[sym] = (w, "result of " + m.group(1).strip()[:80])
                    return sym, w
            if w is None:
                raise ValueError("non-integer local " + loc)
            return self.root(loc, "multi-def/arg local", w), w
        finally:
            self.depth -= 1


def sites_of(fn, consts):
    """[(kind, line, description, smt-violation-condition, roots)]"""
    out = []
    for ln, s in fn.stmts:
        m = re.match(r"(_\d+) = (Add|Sub|Mul)WithOverflow\((.*), (.*)\);$", s)
        if m:
            # only sites that are actually asserted
            res = m.group(1)
            asserted = any(("assert(!move (%s.1: bool)" % res) in t for _, t in fn.stmts)
            if not asserted:
                continue
            e = Enc(fn, consts)
            try:
                a, wa = e.operand(m.group(3))
                b, wb = e.operand(m.group(4), wa)
            except ValueError as ex:
                out.append(("skip", ln, s, str(ex), {}))
                continue
            if m.group(2) == "Add":
                cond = "(bvult (bvadd %s %s) %s)" % (a, b, a)
            elif m.group(2) == "Sub":
                cond = "(bvult %s %s)" % (a, b)
            else:
                cond = "(not (bvumul_noovfl %s %s))" % (a, b)
            out.append((m.group(2).lower() + "-overflow", ln, s, cond, e.roots))
            continue
        m = re.match(r"(_\d+) = (.*) as (u8|u16|u32) \(IntToInt\);$", s)
        if m:
            e = Enc(fn, consts)
            try:
                a, wa = e.operand(m.group(2))
            except ValueError as ex:
                continue
            wt = WIDTH[m.group(3)]
            if wa <= wt:
                continue
            cond = "(not (= ((_ extract %d %d) %s) (_ bv0 %d)))" % (wa - 1, wt, a, wa - wt)
            out.append(("narrowing-cast", ln, s, cond, e.roots))
    return out


def solve(decls, assumptions, cond, solver):
    text = "(set-logic ALL)\n" + "".join("(declare-const %s (_ BitVec %d))\n" % (n, w) for n, (w, _) in decls.items())
    text += "".join("(assert %s)\n" % a for a in assumptions)
    text += "(assert %s)\n(check-sat)\n(get-model)\n" % cond
    cmd = {"z3": ["z3", "-in", "-T:60"], "cvc5": ["cvc5", "--lang", "smt2", "--produce-models", "--tlimit=60000"]}[solver]
    t0 = time.time()
    p = subprocess.run(cmd, input=text, stdout=subprocess.PIPE, stderr=subprocess.STDOUT, text=True, timeout=120)
    dt = time.time() - t0
    out = p.stdout
    first = out.strip().splitlines()[0] if out.strip() else "error"
    if "(error" in out and first != "unsat":
        if first not in ("sat",):
            first = "error"
    model = {}
    if first == "sat":
        for m in re.finditer(r"\(define-fun (\S+) \(\) \(_ BitVec \d+\)\s+#([xb])([0-9a-f]+)\)", out):
            model[m.group(1)] = int(m.group(3), 16 if m.group(2) == "x" else 2)
    return first, model, dt, text


if __name__ == "__main__":
    mir = dump_mir(sys.argv[1] if len(sys.argv) > 1 else "stun-types")
    fns = parse(mir)
    consts = consts_from_source()
    want = sys.argv[2:] or ["from_bytes", "validate_integrity", "padded_attr_len", "write_into", "integrity_bytes_from_message", "add_fingerprint_unchecked"]
    for f in fns:
        if f.simple in want:
            ss = sites_of(f, consts)
            if ss:
                print("==", f.name)
            for kind, ln, s, cond, roots in ss:
                print("  ", kind, ln, s[:100])
                print("       cond:", cond[:200])
                print("       roots:", {k: v for k, v in roots.items()})
