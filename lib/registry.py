"""Harness registry: property -> solver jobs.  See DESIGN.md for what each one encodes."""
import os

Q = ("quick", "thorough")
T = ("thorough",)
# harnesses that exist and compile but were not observed to finish within the session's limits (30-60 min, 30-45 GB):
# run with VERIF_TIER_X=1 ./check <Cnn> --tier thorough; they are part of no registered command
X = ("experimental",)


def K(h, tiers=Q, **kw):
    d = dict(h=h, tiers=tiers, kind="kani")
    d.update(kw)
    return d


def S(h, tiers=Q, **kw):
    d = dict(h=h, tiers=tiers, kind="smt")
    d.update(kw)
    return d


PROPS = {}

_REC_STUB = ("Fingerprint::compute, MessageIntegrity::compute, MessageIntegritySha256::compute -> recorder stubs with unconstrained output in the blayout harnesses: "
             "the builder's layout is decided for every MAC/CRC value and the bytes handed to the primitive are asserted (length, rewritten length field, symbolic probe index, key)")
_LAY_ENC = ("real builder, one raw attribute (symbolic content) + seals: serialised bytes == RFC layout (type field, cookie, id, TLV, zero padding, seal TLVs carrying the primitive's output, "
            "FINGERPRINT == CRC ^ 0x5354554e), length multiple of 4 == byte_len() == header length + 20; MAC/CRC input == message up to the attribute with the length field covering it, key == password")


def _lay(names, tiers=Q):
    return [K("blayout::c03_layout_" + n, tiers, encodes=_LAY_ENC, bounds="all classes x methods x ids x attribute contents; value length and seal set per harness name",
              mem=12 if tiers == Q else 40, timeout=1500 if tiers == Q else 7200) for n in names]



PROPS["C19"] = dict(
    functions=["MessageType::{from_class_method,class,method,from_bytes,write_into,to_bytes}", "MessageClass::to_bits",
               "TransactionId::from(u128)", "u128::from(TransactionId)", "MessageHeader::from_bytes",
               "Message::{transaction_id,get_type}", "MessageBuilder::{write_into,build}"],
    bounds="none beyond the type widths: all 4x4096 (class, method), all 65536 type fields, all u128 ids",
    outside=["TransactionId::generate() is not executed (thread-local RNG); it goes through From<u128>, the only constructor"],
    jobs=[
        K("c19::c19_class_method_roundtrip", encodes="from_class_method == RFC interleaving; class/method/from_bytes invert it",
          bounds="all 4 classes x all 4096 methods"),
        K("c19::c19_all_type_values", encodes="from_bytes on every 16-bit value: NotStun iff top bits set, else unique (class, method)",
          bounds="all 65536 values"),
        K("c19::c19_transaction_id_mask", encodes="TransactionId::from(u128) keeps exactly the low 96 bits; equality = low-96 equality",
          bounds="all u128 x u128"),
        K("c19::c19_header_layout", encodes="real builder: type at 0..2, cookie at 4..8, id at 8..20; MessageHeader and Message read it back",
          bounds="all classes x methods x u128 ids, attribute-less message"),
    ],
)

PROPS["C13"] = dict(
    functions=["XorMappedAddress::{new,addr,to_raw,from_raw,write_into}", "XorSocketAddr::{new,xor_addr,addr}",
               "MappedSocketAddr::{from_raw,to_raw,write_into_unchecked,length}", "bytewise_xor!"],
    bounds="none beyond type widths: all IPv4 (2^32) / IPv6 (2^128) addresses x all ports x all u128 transaction ids",
    outside=[],
    jobs=[
        K("c13::c13_ipv4", encodes="new(a,t).addr(t)==a; RFC wire layout; from_raw(to_raw) and write_into agree", bounds="2^32 x 2^16 x 2^128"),
        K("c13::c13_ipv6", encodes="same for IPv6 incl. other-tid => other address", bounds="2^128 x 2^16 x 2^128 x 2^128"),
        K("c13::c13_decode_wire", encodes="decoding any 8/20-byte wire value is the inverse RFC XOR", bounds="all 20-byte values x both lengths x all tids"),
    ],
)

_c08 = []
for _n, _b in [
    ("message_integrity", "value 0..=24 symbolic bytes, all 65536 types"), ("message_integrity_sha256", "value 0..=36"),
    ("userhash", "value 0..=36"), ("fingerprint", "value 0..=8"), ("priority", "value 0..=8"), ("use_candidate", "value 0..=4"),
    ("ice_controlled", "value 0..=12"), ("ice_controlling", "value 0..=12"), ("alternate_server", "value 0..=24"),
    ("xor_mapped_address", "value 0..=24, all tids"), ("utf8_oracle", "real core::str::from_utf8 == RFC 3629 reference on all byte strings of length 0..=4"),
    ("username", "value 0..=6 bytes incl. all UTF-8 forms (from_utf8 replaced by the RFC 3629 reference, see utf8_oracle)"),
    ("realm", "0..=6"), ("nonce", "0..=6"), ("software", "0..=6"), ("alternate_domain", "0..=6"),
    ("username_enc", "all valid UTF-8 strings of 0..=6 bytes"), ("realm_enc", "0..=6"), ("nonce_enc", "0..=6"), ("software_enc", "0..=6"),
    ("alternate_domain_enc", "0..=6"), ("error_code_len0", "value length 0"), ("error_code_len3", "value length 3"), ("error_code_len4", "value length 4, all bytes"),
    ("error_code_len5", "5"), ("error_code_len6", "6"), ("error_code_len8", "8"), ("error_code_all_pairs", "all 65536 class/number byte pairs"),
    ("error_code_enc_len0", "all u16 codes, empty reason"), ("error_code_enc_len1", "all u16 codes x 1-byte reasons"),
    ("error_code_enc_len5", "all u16 codes x all valid UTF-8 reasons of 5 bytes"), ("unknown_attributes", "value 0..=7 (<=3 entries, odd lengths)"),
    ("unknown_attributes_enc", "<=3 entries, all u16"), ("password_algorithm", "value 0..=12"), ("password_algorithms", "value 0..=12 (<=3 entries)"),
    ("password_algorithms_enc", "1..=3 entries"), ("limit_username", "length 0..=800, from_utf8 verdict nondeterministic (stub)"),
    ("limit_realm", "0..=800"), ("limit_nonce", "0..=800"), ("limit_software", "0..=800"), ("limit_error_code", "0..=800"),
]:
    _c08.append(K("c08::c08_" + _n, encodes="T::from_raw / to_raw / getters vs RFC oracle (attr_ref) for " + _n, bounds=_b,
                  mem=12 if _n.startswith("error_code") else 6))

PROPS["C08"] = dict(
    functions=["<T as TryFrom<&RawAttribute>>::try_from for the 19 built-in T", "T::to_raw", "T::length", "T::new", "getters of each T",
               "RawAttribute::{new,check_type_and_len}", "check_len", "MappedSocketAddr::{from_raw,to_raw}", "PasswordAlgorithmValue::{read,write}",
               "core::str::from_utf8 (real, <= 4 bytes, in c08_utf8_oracle)"],
    bounds="all 65536 attribute types; value length 0..=(fixed size + 4) for fixed-size types, 0..=6 bytes of arbitrary content for text "
           "(0..=8 for ERROR-CODE), <=3 list entries, lengths 0..=800 with constant content for the 513/763/767 limits",
    outside=["text content longer than 6 bytes (core::str::from_utf8 is trusted beyond that)", "SASLprep / 128-character limits (TODO in the code)",
             "lists longer than 3 entries"],
    stubs=["core::str::from_utf8 -> RFC 3629 reference utf8_ref in the text/ERROR-CODE harnesses (equivalence with the real function checked for <= 4 bytes in c08_utf8_oracle)",
           "core::str::from_utf8 -> nondeterministic verdict, only in the c08_limit_* harnesses"],
    jobs=_c08,
)

_PARSE_FUNCS = ["Message::from_bytes", "MessageHeader::from_bytes", "MessageType::from_bytes", "RawAttribute::from_bytes",
                "AttributeHeader::parse", "padded_attr_len", "AttributeExt::padded_len", "Fingerprint::from_raw",
                "MessageAttributesIter::next", "Message::{iter_attributes,raw_attribute,has_attribute,class,method,transaction_id,get_type}"]
_CRC_STUB = "Fingerprint::compute -> recorder + unconstrained 4-byte result (the parser logic is decided for every CRC value; the recorded input is asserted to be the message up to the FINGERPRINT with the rewritten length field)"

PROPS["C02"] = dict(
    functions=_PARSE_FUNCS,
    bounds="every byte string of length 0..=32 (quick; <=3 attributes) / 0..=36 and 0..=44 (thorough; <=6 attributes), all contents",
    outside=["buffers longer than 44 bytes / more than 6 attributes", "the text of error messages", "the CRC as a function (C09)"],
    stubs=[_CRC_STUB],
    jobs=[
        K("c02::c02_verdict_32", encodes="from_bytes accepts iff refdec accepts; rejection cause and byte counts; CRC input; class/method/tid", bounds="len 0..=32", mem=8),
        K("c02::c02_iter_32", encodes="iter_attributes in lock-step with refdec's exposed list (type, length, value pointer)", bounds="len 0..=32", mem=10),
        K("c02::c02_has_32", encodes="has_attribute(q) for symbolic q == first exposed match", bounds="len 0..=32, all 65536 q", mem=10),
        K("c02::c02_lookup_32", encodes="raw_attribute(q) for symbolic q == first exposed match", bounds="len 0..=32, all 65536 q", mem=10),
        K("c02::c02_verdict_36", T, encodes="as verdict_32", bounds="len 0..=36", mem=12, timeout=5400),
        K("c02::c02_iter_36", T, encodes="as iter_32 (fits [MI,SHA256,FP] tails)", bounds="len 0..=36", mem=16, timeout=5400),
        K("c02::c02_has_36", T, encodes="as has_32", bounds="len 0..=36", mem=16, timeout=5400),
        K("c02::c02_lookup_36", T, encodes="as lookup_32", bounds="len 0..=36", mem=16, timeout=5400),
        K("c02::c02_verdict_44", T, encodes="as verdict_32", bounds="len 0..=44", mem=20, timeout=7200),
    ],
)

PROPS["C17"] = dict(
    functions=["Message::from_bytes", "MessageHeader::{from_bytes,data_length,transaction_id,get_type}", "MessageType::from_bytes"],
    bounds="every well-formed message of 20..=32 bytes (quick) / ..=44 (thorough) x every cut point; header decoder on every buffer of 0..=24 bytes",
    outside=["messages longer than 44 bytes"],
    stubs=[_CRC_STUB],
    assumptions=["'well-formed message' is judged by the reference decoder refdec, which C02 shows equivalent to Message::from_bytes on the same bounds"],
    jobs=[
        K("c17::c17_prefix_32", encodes="from_bytes(m[..c]) == Truncated{expected: c<20 ? 20 : len(m), actual: c} for every accepted m and cut c", bounds="len(m) <= 32", mem=8),
        K("c17::c17_header_decoder", encodes="MessageHeader::from_bytes on all buffers: Ok iff >=20 bytes, top bits zero, cookie; fields as encoded", bounds="len 0..=24"),
        K("c17::c17_header_vs_parser", encodes="header decoder and parser agree on NotStun and on type/tid/length", bounds="len 20..=28", mem=8),
        K("c17::c17_prefix_44", T, encodes="as prefix_32", bounds="len(m) <= 44", mem=16, timeout=5400),
    ],
)

PROPS["C10"] = dict(
    functions=_PARSE_FUNCS,
    bounds="every accepted message of up to 36 bytes (fits every order/subset of the three seal attributes with empty MI/SHA256 values), as a two-way case split on the first attribute",
    outside=["messages longer than 36 bytes", "the two-buffer formulation ('replacing the bytes after the first integrity attribute never changes the exposed attributes before it') as its own query: c10_two_buffers_32 did not finish in 28 min (experimental tier); "
             "it follows from the table: the exposed prefix up to the first integrity attribute is determined by the bytes up to it", "the byte range covered by the HMAC is asserted in C04 (validate_integrity recorder)"],
    stubs=[_CRC_STUB],
    jobs=[
        K("c10::c10_tail_36_seal_first", encodes="exposed attributes of every accepted message == explicit table over the accepted seal tails; case 1 of 2: first attribute is MESSAGE-INTEGRITY / -SHA256 / FINGERPRINT", bounds="len 0..=36", mem=16, timeout=1500),
        K("c10::c10_tail_36_ordinary_first", encodes="same; case 2 of 2: first attribute is an ordinary attribute (or there is none)", bounds="len 0..=36", mem=16, timeout=1500),
        K("c10::c10_tail_36", T, encodes="the same claim as one query (no case split)", bounds="len 0..=36", mem=16, timeout=2400),
        K("c10::c10_two_buffers_32", X, encodes="two messages equal up to the end of the first integrity attribute expose the same attributes up to it (did not finish in 28 min)", bounds="len <= 32 each", mem=16, timeout=2400,
          unwindset=[["kani/src/c10.rs", "splice", 34]]),
        K("c10::c10_tail_40", T, encodes="as tail_36", bounds="len 0..=40", mem=24, timeout=7200),
    ],
)

_AGENT_FUNCS = ["StunAgent::{send,poll,handle_stun,take_outstanding_request,validated_peer,is_validated_peer,request_transaction,mut_request_transaction}",
                "StunRequestState::{new,poll}", "StunRequestMut::{cancel,cancel_retransmissions,peer_address}", "send_data", "Transmit::{new,into_owned}",
                "MessageBuilder::{build,has_attribute,transaction_id,has_class}"]
_AGENT_STUBS = ["Message::validate_integrity -> unconstrained verdict (agent logic decided for both verdicts; what the verdict should be is C04)",
                "MessageIntegrity::compute -> unconstrained 20 bytes (send harnesses)",
                "StunRequestState::poll -> verif_poll_abstract (outcome chosen freely per request) ONLY in the *_agg* harnesses that decide how StunAgent::poll combines several requests",
                "std HashMap/HashSet -> fixed-capacity (3) array models under cfg(kani) with harness-chosen iteration order"]
_AGENT_ASSUME = ["pre-states are arbitrary states satisfying the representation invariant R (timeout_i <= len, last_send_time set, cancel implies cancel_retransmissions); the one-step results extend to histories of any length because every API call preserves R (asserted)",
                 "pre-state requests carry two retransmission intervals taken from a fixed configuration per harness ([500,1000]+8000, [0,1]+0, [39500,3840000]+7680000 ms); instants are fully symbolic (seconds < 2^40)",
                 "iteration orders of the outstanding map are enumerated as constants (2 of 2 for two requests; 6 of 6 for three requests in the thorough tier)"]
_AGENT_OUT = ["more than 3 concurrent transactions", "two or more requests with the REAL per-request poll in one query (does not finish in 50 min; covered compositionally: single-request harness + aggregation harness)",
              "threads", "instants beyond 2^40 s"]


def _agent(pid, quick, thorough, extra_assume=()):
    jobs = []
    for h, enc in quick:
        jobs.append(K("agenth::" + h, encodes=enc, bounds="one API call from an arbitrary valid state", mem=26 if h.endswith("sha1") else 10, timeout=2400))
    for h, enc in thorough:
        jobs.append(K("agenth::" + h, T, encodes=enc, bounds="one poll over 2 outstanding requests with abstract per-request outcomes", mem=26, timeout=5400))
    PROPS[pid] = dict(functions=_AGENT_FUNCS, bounds="one arbitrary API call from an arbitrary valid agent state with <= 2 outstanding requests (3 in the aggregation harnesses of the thorough tier), both transports, symbolic instants",
                      outside=_AGENT_OUT, stubs=_AGENT_STUBS, assumptions=_AGENT_ASSUME + list(extra_assume), jobs=jobs)


_POLL1 = "poll(now) on one outstanding request == reference state machine (wait/transmit/timeout/cancelled, state update)"
_AGG = "StunAgent::poll over several requests: event for some due request, else WaitUntil(earliest); only that request changes"
_HANDLE = "handle_stun(any class, id in/not in the outstanding set, any source) == model: delivered/dropped/incoming, outstanding set, state untouched on drop, validated peers"
_CANCEL = "cancel / cancel_retransmissions touch only the flags of their transaction"
_SEND = "send(request/indication/response): duplicate refused and nothing changed; else transmitted bytes == build(), addressing, initial schedule"

_agent("C05",
       [("c05_poll_one", _POLL1), ("c05_handle_step", _HANDLE), ("c05_cancel_step", _CANCEL), ("c05_send_step", _SEND + " (no integrity)"),
        ("c05_send_step_sha256", _SEND + " (SHA-256 integrity)")],
       [("c05_agg2_o0", _AGG + " (2 requests, order 0,1,2)"), ("c05_agg2_o2", _AGG + " (2 requests, order 1,0,2)"), ("c05_send_step_sha1", _SEND + " (SHA-1 integrity; > 20 min, > 20 GB)")])
_agent("C06",
       [("c06_poll_one", _POLL1 + " [500,1000]+8000 ms"), ("c06_poll_one_zero", _POLL1 + " [0,1]+0 ms"), ("c06_poll_one_long", _POLL1 + " [39500,3840000]+7680000 ms (beyond one hour)"),
        ("c06_cancel_step", _CANCEL), ("c06_send_step", _SEND + "; default 500..16000+8000 ms / TCP 39500 ms")],
       [("c06_agg2_o0", _AGG), ("c06_agg2_o2", _AGG)])
for _n, _t in [("udp_0", Q), ("udp_3", Q), ("udp_8", Q), ("tcp_0", Q), ("udp_1", T), ("udp_7", T), ("tcp_3", T), ("tcp_8", T)]:
    PROPS["C06"]["jobs"].append(K("c06cfg::c06_configure_" + _n, _t, encodes="configure_timeout(rto, n, last) installs exactly n intervals rto*2^k (k < n) and the final wait `last` (TCP: no retransmission, final wait = last + rto*(2^n - 1)); "
                                  "nothing else of the transaction and nothing of another transaction changes", bounds="rto 1..=60000 ms, last 0..=60000 ms (whole milliseconds), n per harness name, arbitrary schedule position", mem=6, timeout=1200 if _t == Q else 7200))
PROPS["C06"]["outside"] = [o for o in PROPS["C06"]["outside"]] + ["configure_timeout with sub-millisecond Durations or retransmits > 8",
                                                              "QUICK TIER: the TCP sum for retransmits > 0 (tcp_3 / tcp_8: the Duration fold does not finish in 20 min; thorough tier)"]
_agent("C07", [("c07_handle_step", _HANDLE), ("c07_send_step", _SEND + "; request_had_credentials false without integrity attribute"),
               ("c07_send_step_sha256", "request_had_credentials true with MESSAGE-INTEGRITY-SHA256")],
       [("c07_send_step_sha1", "request_had_credentials true with MESSAGE-INTEGRITY (> 20 min, > 20 GB: thorough tier only)")])
_agent("C15", [("c15_handle_step", _HANDLE), ("c15_send_step", "sending never changes the validated set"), ("c15_cancel_step", "cancel never changes the validated set"),
               ("c15_poll_one", "poll never changes the validated set")], [])
_agent("C18", [("c18_poll_one", _POLL1 + "; retransmitted bytes == stored request bytes (symbolic), addressing"), ("c18_send_step", _SEND + " (symbolic attribute value)"),
               ("c18_cancel_step", "peer_address of an outstanding request")], [("c18_agg2_o0", _AGG + "; bytes of the served request"), ("c18_agg2_o2", _AGG)])
_agent("C20", [("c20_poll_one", "poll result and reported instants are the model's function of (state, now) only"), ("c20_send_step", "stored send instant == the `now` passed in"),
               ], [("c20_agg2_o0", _AGG)],
       extra_assume=["no-ambient-state half: Kani fails any harness that can reach clock_gettime/getrandom or another foreign function; every agent harness passing means none is reachable from send/poll/handle_stun/cancel (std HashMap's RandomState seed is excluded by the map model)"])

for _p in ("C05", "C20"):
    PROPS[_p]["jobs"].append(K("c06cfg::c06_configure_udp_3", encodes="configure_timeout touches only the schedule table of its transaction (timeout_i, last_send_time, flags and every other transaction unchanged) and reaches no clock / foreign function",
                               bounds="rto 1..=60000 ms, last 0..=60000 ms, 3 retransmissions, arbitrary schedule position", mem=6, timeout=1200))

PROPS["C14"] = dict(
    functions=["TcpBuffer::{new,push_data,pull_data,take}"],
    bounds="every stream content of N bytes pushed as two chunks cut at P1, for the enumerated (N, P1) pairs (N 2..=8; all cut points for N = 6), a pull after each push and two more (4 pulls); "
           "frame lengths are symbolic (read from the stream): frames of 0..=6 bytes incl. empty frames",
    outside=["frames longer than 6 bytes (up to 65535 in the statement): the code compares and splits by length only; `read_u16 as usize + 2` is shown not to overflow by the MIR->SMT query",
             "more than 2 pushes; chunk sizes are enumerated constants because Vec operations with symbolic sizes exceed 16 GB in CBMC (measured)"],
    jobs=[K("c14::c14_" + n, tiers, encodes="pull_data after every push == next frame of the stream pushed so far, None iff no complete frame buffered; a None pull leaves later pulls unaffected",
            bounds=n, mem=6, timeout=1200)
          for n, tiers in [("n6_p0", Q), ("n6_p1", Q), ("n6_p2", Q), ("n6_p3", Q), ("n6_p4", Q), ("n6_p5", Q), ("n2_p1", Q), ("n4_p2", Q), ("n7_p2", Q), ("n7_p5", T), ("n5_p3", T), ("n8_p4", T)]]
         + [S("smt::stun-proto", encodes="MIR->SMT: `read_u16 as usize + 2` and `data_length - 2` in TcpBuffer::pull_data cannot overflow", bounds="all u16 lengths", crate="stun-proto", min_sites=2)],
)

PROPS["C09"] = dict(
    functions=["Fingerprint::{compute,new,to_raw,write_into_unchecked,try_from,XOR_CONSTANT}", "MessageBuilder::{add_fingerprint,add_fingerprint_unchecked,build}", "Message::from_bytes (Fingerprint branch)", "crc::Crc<u32>::checksum (table driven)"],
    bounds="CRC equivalence for every byte string of 0..=8 / 16 (quick) / 28 (thorough) bytes; builder and parser with the REAL CRC on [header, one 4-byte attribute, FINGERPRINT] (36 bytes) with all non-structural bytes symbolic",
    outside=["messages of another shape with the real CRC (the parser/builder logic around the CRC is decided for every CRC value and every shape <= 44 bytes in C02/C03)",
             "burst-error detection is a property of the CRC-32 polynomial: once the parser accepts iff value == crc32(bytes before it) (decided here for all 2^224 contents), a burst of <= 32 bits that leaves the FINGERPRINT in place changes crc32 and is rejected; the polynomial property itself is not re-proved"],
    jobs=[
        K("c09::c09_crc_8", encodes="Fingerprint::compute == bitwise reflected CRC-32/ISO-HDLC", bounds="len 0..=8", mem=8),
        K("c09::c09_crc_16", encodes="same", bounds="len 0..=16", mem=10, timeout=2400),
        K("c09::c09_crc_check_value", encodes="CRC('123456789') == 0xcbf43926 for both the implementation and the reference", bounds="1 vector"),
        K("c09::c09_xor_constant", encodes="wire value == CRC ^ 0x5354554e in to_raw, write_into, from_raw", bounds="all 2^32 CRC values"),
        K("blayout::c03_layout_l4_fp", T, encodes=_LAY_ENC + " [C09: for EVERY CRC value the builder writes CRC ^ 0x5354554e and hashes the message up to the attribute with the length field covering it]",
          bounds="all contents", mem=40, timeout=7200),
        K("c02::c02_verdict_32", encodes="parser: a buffer with a FINGERPRINT is accepted iff the recorded CRC of its own bytes up to the attribute (length field covering it) equals the value; CRC input asserted (recorder stub, every CRC value)",
          bounds="len 0..=32", mem=8),
        K("c09::c09_builder_fingerprint_real_crc", T, encodes="add_fingerprint: value == crc32_ref(message up to attribute with length covering it) ^ constant", bounds="all type/id/attribute bytes", mem=30, timeout=7200),
        K("c09::c09_parser_fingerprint_real_crc", T, encodes="from_bytes accepts [hdr, attr, FP] iff FP value == crc32_ref(own bytes) ^ constant", bounds="all 2^224 contents", mem=30, timeout=7200),
        K("c09::c09_crc_28", T, encodes="same as crc_8", bounds="len 0..=28", mem=16, timeout=5400),
    ],
)

# quick commands are stopped after 900 s: the six slowest attribute harnesses (260-520 s each, three of them > 14 GB) are thorough-tier
_C12_SLOW = ("realm", "nonce", "alternate_domain", "alternate_server", "xor_mapped_address", "error_code")
_c12 = [K("c12::c12_" + n, T if n in _C12_SLOW else Q, encodes="write_into == to_raw().to_bytes(); padded length; zero padding; nothing beyond touched; short destination -> TooSmall and untouched",
          bounds="destination sizes 0..=64 (24 for raw), all values within the C08 bounds", mem=24 if n in ("alternate_server", "xor_mapped_address", "error_code") else 7, timeout=1500)
        for n in ["username", "realm", "nonce", "software", "alternate_domain", "error_code", "unknown_attributes", "message_integrity",
                  "message_integrity_sha256", "userhash", "fingerprint", "priority", "use_candidate", "ice_controlled", "ice_controlling",
                  "password_algorithm", "password_algorithms", "xor_mapped_address", "alternate_server", "raw_attribute"]]
_MEMO_UW = [["kani/src/stubs.rs", "matches", 82], ["kani/src/stubs.rs", "store", 82], ["kani/src/stubs.rs", "sha1_verify_memo_stub", 22],
            ["kani/src/stubs.rs", "sha256_verify_memo_stub", 34]]
_MEMO_STUB = "Fingerprint::compute, MessageIntegrity(Sha256)::{compute,verify} -> memoising uninterpreted functions (unconstrained output, same input => same output): results hold for every MAC/CRC function"
_BUILD_FUNCS = ["Message::builder", "MessageBuilder::{add_raw_attribute,add_attribute,add_message_integrity,add_message_integrity_unchecked,add_fingerprint,add_fingerprint_unchecked,"
                "integrity_bytes_from_message,build,write_into,byte_len,into_owned,clone,has_attribute,has_any_attribute}", "AttrOrRaw::{write_into,into_owned}",
                "RawAttribute::{write_into_unchecked,into_owned}", "Message::from_bytes", "MessageAttributesIter::next"]
for _n in ["paths_l1_none", "paths_l3_fp", "paths_l2_mi_fp"]:
    _c12.append(K("builder::c12_" + _n, T, encodes="build() == write_into(exact) == write_into(larger) prefix, suffix untouched, same after clone()/into_owned(); shorter -> TooSmall, nothing written",
                  bounds="one raw attribute (symbolic type, 1..3 value bytes) + seals", mem=30, timeout=7200, unwindset=_MEMO_UW))
_c12 += _lay(["l1_none"])  # zero padding + byte_len == serialisation for a built message
PROPS["C12"] = dict(
    functions=["AttributeWriteExt::write_into", "AttributeWrite::{write_into_unchecked,to_raw} of the 19 built-in types and RawAttribute", "RawAttribute::to_bytes"] + _BUILD_FUNCS,
    bounds="every value within the C08 bounds (text <= 6 bytes, lists <= 3 entries) x every destination size 0..=64; builders with one raw attribute and seal combinations",
    outside=["value lengths 10..=763 (same copy code, not re-run per length)", "builders with more than one ordinary attribute"],
    stubs=[_MEMO_STUB + " (thorough-tier builder::c12_paths_*)", _REC_STUB],
    jobs=_c12,
)

PROPS["C03"] = dict(
    note="QUICK TIER is compositional (builder byte layout + parser-vs-reference on all buffers <= 32 bytes); seals none / SHA-256.",
    functions=_BUILD_FUNCS + _PARSE_FUNCS,
    bounds="builder side: all classes x methods x transaction ids x one raw attribute (type 0x7f01, symbolic content, 0..=7 value bytes over the harnesses = every padding residue) x 7 of the 8 sealing combinations; "
           "QUICK TIER seals: none and SHA-256 (the SHA-1 and FINGERPRINT sealing paths are thorough-tier: > 10 min / > 30 GB each in CBMC); parser side: every buffer of 0..=32 bytes (C02's harnesses, registered here too): what a buffer encodes is what the parser exposes",
    outside=["QUICK TIER is compositional: (1) the builder serialises exactly the RFC layout L(m) [blayout harnesses], (2) every buffer <= 32 bytes, so every L(m) of that size, is parsed back as encoded [c02 harnesses]; "
             "the end-to-end builder->parser queries in ONE solver call (builder::c03_rt_*) are thorough-tier (30+ min, > 16 GB each)",
             "more than one ordinary attribute before the seals; attribute types other than 0x7f01 in the builder harnesses (a symbolic type keeps add_raw_attribute's refusal arms feasible and drags core's Debug formatting into the query)",
             "typed attributes inside a built message (their writers are decided per type in C12/C08)", "values longer than 7 bytes; total size near 64 KiB (length arithmetic: MIR->SMT query in C01)"],
    stubs=[_REC_STUB, _CRC_STUB, _MEMO_STUB + " (thorough-tier builder::* harnesses)"],
    jobs=_lay(["l1_none", "l0_none", "l3_sha"]) + _lay(["l4_fp", "l2_mi", "l1_mi_sha_fp", "l5_mi_fp", "l6_sha_fp", "l7_mi_sha"], T) + [
        K("c02::c02_iter_32", encodes="parser side of the round trip: iter_attributes in lock-step with the reference decoder (type, length, value pointer) on EVERY buffer", bounds="len 0..=32", mem=10),
        K("c02::c02_verdict_32", encodes="parser side: every well-formed buffer is accepted with the encoded class/method/id", bounds="len 0..=32", mem=8),
    ] + [K("builder::c03_rt_" + n, T, encodes="build -> from_bytes in one query: lengths, header length field, class/method/tid, attribute order/values, seal attributes read back",
            bounds=n, mem=30, timeout=7200, unwindset=_MEMO_UW)
          for n in ["l1_none", "l4_fp", "l2_mi", "l1_mi_sha_fp"]],
)


PROPS["C04"] = dict(
    functions=["Message::validate_integrity", "MessageIntegrityCredentials::make_hmac_key", "MessageIntegrity::{verify,compute}", "MessageIntegritySha256::{verify,compute}",
               "Message::{from_bytes,raw_attribute}", "MessageAttributesIter::next", "hmac/sha1/sha2/md-5 crates (portable back-ends) on fixed inputs"],
    bounds="validation: every accepted message of <= 44 bytes (quick) / 64 bytes (thorough) with <= 2 attributes x every short-term password of 0..=3 ASCII bytes; MAC compare: all 2^160 (SHA-1) / all expected values of each length 16..32 (SHA-256) on one fixed (data, key); long-term key on one fixed credential triple",
    outside=["QUICK TIER decides only the MAC comparison (all 2^160 expected values) and the builder side for SHA-256; what validate_integrity hands to the MAC (c04_validate_record_44: 25-35 min) is thorough-tier; "
             "the long-term key derivation harness (MD5 of user:realm:pass, symbolic execution of the md-5 crate) did not finish in 55 min and is not claimed (experimental tier)",
             "collision / forgery resistance of HMAC-SHA1, HMAC-SHA256, MD5: 'any other key or any changed byte fails' is decided as 'every byte up to the integrity attribute, the length field, the key and the expected value reach the MAC unmodified' (recorder, symbolic probe index); that the MAC then differs is the cryptographic assumption",
             "messages with more than 2 attributes; HMAC values for inputs other than the embedded vectors (independent implementation: CPython hmac/hashlib)"],
    stubs=["MessageIntegrity::verify / MessageIntegritySha256::verify -> recorder + unconstrained verdict in c04_validate_record and c04_long_term_key", _CRC_STUB],
    jobs=[
        K("c04::c04_validate_record_44", T, encodes="validate_integrity: which attribute is checked, HMAC input = message up to it with rewritten length, expected = its value, key = password, verdict = MAC verdict, missing attribute reported",
          bounds="len <= 44 (fits [MI], [X, SHA256/16], [SHA256/16..24]), <= 2 attributes, password <= 3 bytes", mem=26, timeout=3000,
          unwindset=[["stun-types/src/message.rs", "validate_integrity", 3], ["kani/src/refdec.rs", "refdec", 14], ["raw:memcmp.0", "*", 34]]),
        K("c04::c04_validate_record", T, encodes="same with both integrity attributes in one message", bounds="len <= 64, <= 2 attributes, password <= 3 bytes", mem=45, timeout=7200,
          unwindset=[["stun-types/src/message.rs", "validate_integrity", 3], ["kani/src/refdec.rs", "refdec", 14], ["raw:memcmp.0", "*", 34]]),
        K("c04::c04_long_term_key", X, encodes="long-term key == MD5(user:realm:password) (independent value)", bounds="credentials user/realm/pass", mem=10, timeout=2400),
        K("c04::c04_verify_sha1_all_expected", encodes="MessageIntegrity::verify(d,k,e) is Ok iff e == HMAC-SHA1(k,d) (independent value), compute returns it", bounds="all 2^160 e, fixed d (28 bytes) and k", mem=16, timeout=3000),
        K("blayout::c03_layout_l2_mi", T, encodes=_LAY_ENC + " [C04 builder side, SHA-1]", bounds="all contents", mem=40, timeout=7200),
        K("blayout::c03_layout_l3_sha", encodes=_LAY_ENC + " [C04 builder side, SHA-256]", bounds="all contents", mem=12, timeout=1500),
        K("c04::c04_verify_sha256_all_expected", T, encodes="MessageIntegritySha256::verify with truncated expected values", bounds="all e of length 16,20,..,32", mem=16, timeout=5400),
    ],
)

PROPS["C11"] = dict(
    note="QUICK TIER: operation sequences of length 2 (one ordering rule each); length-4 sequences incl. SHA-1/FINGERPRINT operations are thorough-tier.",
    functions=_BUILD_FUNCS + ["Message::validate_integrity"],
    bounds="QUICK: 7 sequences of length 2 (one rule each: duplicate, add after SHA-256 integrity, duplicate SHA-256, SHA-1 after SHA-256, two distinct attributes, into_owned, clone) -- a builder holding 3 attributes already needs > 20 GB in CBMC (measured); THOROUGH: 14 sequences of length 4 over {add raw X, add raw Y, SHA-1 integrity, SHA-256 integrity, fingerprint, into_owned, clone} chosen to hit every rule of the statement "
           "(duplicate of the last / of an earlier attribute, after integrity, after fingerprint, SHA-1 after SHA-256, duplicate seals, refusal after into_owned/clone); message type, transaction id, attribute values and the queried type are symbolic",
    outside=["sequences other than the enumerated ones and sequences longer than 4 (the statement asks for all sequences up to length 7): the guards read only the list of attribute types present, which these sequences drive through every combination of {ordinary, MI, SHA256, FP} present/absent that a refusal depends on",
             "QUICK TIER: 'the serialised message is accepted by the parser with valid integrity and fingerprint' is compositional (the final builder's byte_len/queries/serialised length are asserted here, the byte layout incl. MAC/CRC input in the C03/C04 layout harnesses, acceptance of that layout in C02); "
             "parse + validate_integrity of the built message in the same query is builder::c11_ops_* (thorough)",
             "add_attribute/add_raw_attribute with a seal type (documented panic)", "typed attributes (add_attribute) in the quick tier: add_attribute and add_raw_attribute share the refusal match (thorough-tier sequence 3736 uses SOFTWARE)"],
    stubs=[_REC_STUB, _MEMO_STUB + " (thorough)", "core::str::from_utf8 -> RFC 3629 reference (Software::new in the thorough harness)"],
    jobs=[K("blayout::c11_rules_%s" % o, encodes="each operation refused exactly per the ordering rules; a refused operation leaves byte_len()/has_attribute(q) unchanged; into_owned/clone change nothing; final queries, byte_len and serialised length agree with the accepted operations",
            bounds="ops %s" % o, mem=8, timeout=1500)
          for o in ["11", "51", "55", "54", "21", "17", "18"]]
         + [K("blayout::c11_dup_of_earlier_attribute", encodes="X, Y, X: the third add is refused although X is not the most recently added attribute (refusal and final queries only)", bounds="all message types/ids/values", mem=6, timeout=900)]
         + [K("blayout::c11_rules_%s" % o, T, encodes="same, longer sequences and sequences with SHA-1 integrity / FINGERPRINT operations", bounds="ops %s" % o, mem=45, timeout=7200)
            for o in ["1215", "5512", "2812", "1171", "1752", "2127", "1141", "4546", "5456", "6456", "1216", "2861", "4675", "5666"]]
         + [K("builder::c11_ops_%d" % o, T, encodes="as above + after every refusal build() is byte-identical; final message parses, validates, queries agree with the parsed message",
              bounds="ops %d" % o, mem=30, timeout=7200, unwindset=_MEMO_UW) for o in (1141, 4546, 3736, 2861)],
)

_POLICE_UW = [["id:check_attribute_types", "*", 3], ["stun-types/src/message.rs", "next", 3]]
_POLICE_STUB = ("Message::unknown_attributes / Message::bad_request -> recorder stubs that record their arguments and return the REAL Message::builder_error(request) "
                "(the verdict logic of check_attribute_types and builder_error's panic check are the real code; the attribute-adding half of the constructors is decided in c16_response_*_parses_back)")
PROPS["C16"] = dict(
    note="QUICK TIER decides only the comprehension-required classification and the wire form of the response attributes; the policing verdict is decided by the thorough tier (22+ min).",
    functions=["Message::{check_attribute_types,unknown_attributes,bad_request,builder_error}", "AttributeType::comprehension_required", "ErrorCode::new", "UnknownAttributes::new",
               "MessageBuilder::{add_attribute,into_owned,build}", "Message::from_bytes", "Message::attribute"],
    bounds="every accepted request of <= 28 bytes (<= 2 attributes) x every supported/required list of <= 2 types; the 420/400 responses parsed back for all methods, ids and (two) unsupported types; all 65536 types for comprehension_required",
    outside=["QUICK TIER: only the classification of all 65536 types and the wire form of the response attributes; the policing VERDICT (None/420/400, list order, response header) is thorough-tier: "
             "c16_two_attrs_rec needs 22 min / 21 GB (measured), the closure/iterator nest of check_attribute_types is 3-6 M symex steps for every message shape tried",
             "requests with more than 2 attributes, lists longer than 2", "non-request messages (the statement is about requests; policing a non-request is C01, known finding F-C01-3)"],
    stubs=[_CRC_STUB, _POLICE_STUB],
    jobs=[
        K("c16::c16_two_attrs_rec", T, encodes="check_attribute_types on [header, A, B] (symbolic method, id, types A/B, supported <= 2, required <= 1): None/420/400 verdict, 420 before 400, error class/method/id, "
          "the list handed to unknown_attributes == the unsupported comprehension-required types in MESSAGE order (response constructors are recorder stubs)", bounds="all A, B (non-seal), all lists", mem=30, timeout=5400,
          unwindset=_POLICE_UW),
        K("c16::c16_fixed_request_rec", T, encodes="the literal request [hdr, PRIORITY, USERNAME, SOFTWARE] policed with every supported list (<= 2) and required list (<= 1): verdict, 420 first, list in message order", bounds="all lists", mem=30, timeout=5400),
        K("c16::c16_verdict_rec_28", T, encodes="same verdict/list assertions on every accepted request of <= 28 bytes against the reference decoder's exposed attributes", bounds="len <= 28, lists <= 2", mem=20, timeout=5400,
          unwindset=_POLICE_UW),
        K("c16::c16_comprehension_required_all_types", encodes="comprehension_required(t) == (t < 0x8000)", bounds="all 65536 types"),
        K("c16::c16_error_attributes_wire", encodes="ERROR-CODE 420/400 and UNKNOWN-ATTRIBUTES (the attributes of every policing response) encode as RFC 8489 requires, list order preserved", bounds="all pairs of types"),
        K("c16::c16_verdict", T, encodes="check_attribute_types == oracle: 420 iff an exposed type < 0x8000 is unsupported, else 400 iff a required type is absent, else None; response class/id/attributes", bounds="len <= 28, lists <= 2", mem=20, timeout=3000),
        K("c16::c16_response_420_parses_back", T, encodes="420 response: Error class, request method and id, ERROR-CODE 420, UNKNOWN-ATTRIBUTES == the unsupported types in message order; parses back", bounds="all methods/ids, two symbolic types", mem=24, timeout=7200),
        K("c16::c16_response_400_parses_back", T, encodes="400 response parses back with ERROR-CODE 400", bounds="all methods/ids/required type", mem=24, timeout=3000),
    ],
)

_C08_DECODE = ["message_integrity", "message_integrity_sha256", "userhash", "fingerprint", "priority", "use_candidate", "ice_controlled", "ice_controlling",
               "alternate_server", "xor_mapped_address", "username", "realm", "nonce", "software", "alternate_domain", "error_code_len8", "error_code_all_pairs",
               "unknown_attributes", "password_algorithm", "password_algorithms"]
PROPS["C01"] = dict(
    functions=_PARSE_FUNCS + ["<T as TryFrom<&RawAttribute>>::try_from for the 19 built-in T", "Message::{attribute,validate_integrity,check_attribute_types}", "AttributeHeader::try_from"],
    bounds="whole-message functions: every byte string of 0..=32 bytes (quick) / 44 (thorough); RawAttribute::from_bytes on every buffer of 0..=70000 bytes; typed decoders on every value of the C08 bounds and all 65536 types; "
           "64 KiB arithmetic: every checked-arithmetic site of from_bytes / validate_integrity / padded_attr_len / builder length code as a bit-vector query over root ranges up to 70000 (contracts.json)",
    outside=["the tracing-subscriber path (no-op shim = no subscriber installed)", "Display/Debug formatting (not encoded: format! machinery; see DESIGN)", "whole-message behaviour between 45 bytes and 64 KiB except through the MIR->SMT kernels",
             "allocation failure, stack depth"],
    stubs=[_CRC_STUB, _POLICE_STUB, "MessageIntegrity(Sha256)::verify -> recorder (c04_validate_record, registered here for panic freedom of validate_integrity)", "core::str::from_utf8 -> RFC 3629 reference in the typed harnesses"],
    jobs=[
        K("c01::c01_message_type_any_length", encodes="MessageType::from_bytes / try_from on 0..=4 bytes: no panic", bounds="len 0..=4"),
        K("c01::c01_header_any_length", encodes="MessageHeader::from_bytes: no panic", bounds="len 0..=24"),
        K("c01::c01_raw_attribute_small", encodes="RawAttribute::from_bytes, AttributeHeader::try_from: no panic, value inside buffer", bounds="len 0..=16"),
        K("c01::c01_raw_attribute_70000", encodes="RawAttribute::from_bytes across the 16-bit boundary", bounds="len 0..=70000", mem=24, timeout=2400),
        K("c01::c01_inspect_32", encodes="from_bytes on arbitrary bytes, then full iteration, has_attribute(q), class queries: no panic, terminates", bounds="len 0..=32", mem=12, timeout=2400),
        K("c01::c01_typed_error_code", encodes="attribute::<ErrorCode>() on every accepted message", bounds="len 0..=32", mem=12, timeout=2400),
    ] + [K("c01::c01_policing_header_only_" + c, encodes="check_attribute_types on a header-only %s with a symbolic required type: no panic (known finding F-C01-3 for non-requests)" % c,
           bounds="20-byte message, required list 0..=1", mem=6) for c in ("request", "indication", "success", "error")] + [
        K("c01::c01_policing_any_class_24", T, encodes="check_attribute_types on every accepted message of ANY class (<= 1 attribute) with symbolic supported/required lists: no panic", bounds="len 0..=24, lists <= 1",
          mem=30, timeout=5400, unwindset=_POLICE_UW),
        K("c04::c04_validate_record_44", T, encodes="validate_integrity with arbitrary short-term credentials: no panic, unreachable!() not reached (quick tier: C04's check runs this harness; 20+ min)", bounds="len <= 44, <= 2 attributes", mem=26, timeout=3000,
          unwindset=[["stun-types/src/message.rs", "validate_integrity", 3], ["kani/src/refdec.rs", "refdec", 14], ["raw:memcmp.0", "*", 34]]),
        S("smt::stun-types", encodes="MIR->SMT: no checked-arithmetic site of the message/attribute length code can overflow for sizes up to 70000 / messages up to 65555 bytes", bounds="root ranges of smt/contracts.json",
          crate="stun-types", min_sites=20),
    ] + [K("c08::c08_" + n, encodes="T::from_raw on arbitrary raw attributes: no panic", bounds="as C08", mem=6) for n in _C08_DECODE]
      + [K("c01::c01_inspect_44", T, encodes="as inspect_32", bounds="len 0..=44", mem=24, timeout=7200),
         K("c01::c01_typed_xor_mapped_address", T, encodes="attribute::<XorMappedAddress>()", bounds="len 0..=32", mem=12, timeout=2400),
         K("c01::c01_typed_username", T, encodes="attribute::<Username>()", bounds="len 0..=32", mem=12, timeout=2400, unwindset=[["kani/src/util.rs", "utf8_ref", 14]]),
         K("c01::c01_typed_fingerprint", T, encodes="attribute::<Fingerprint>()", bounds="len 0..=32", mem=12, timeout=2400)],
)


# ---------------------------------------------------------------------------------------------
# Tier bookkeeping from measurements: harnesses never observed to finish go to the experimental
# tier (not part of the quick or thorough command); every remaining thorough-only job is capped
# at 45 minutes so that a thorough command ends in bounded time.
_EXPERIMENTAL = ("builder::", "c01::c01_typed_username", "blayout::c03_layout_l4_fp", "blayout::c03_layout_l2_mi", "blayout::c03_layout_l1_mi_sha_fp", "blayout::c03_layout_l5_mi_fp",
                 "blayout::c03_layout_l6_sha_fp", "blayout::c03_layout_l7_mi_sha", "blayout::c11_rules_1", "blayout::c11_rules_2", "blayout::c11_rules_4", "blayout::c11_rules_5",
                 "blayout::c11_rules_6", "c09::c09_builder_fingerprint_real_crc", "c09::c09_parser_fingerprint_real_crc", "c06cfg::c06_configure_tcp_3", "c06cfg::c06_configure_tcp_8",
                 "c16::c16_verdict", "c16::c16_response_", "c16::c16_fixed_request_rec", "c04::c04_validate_record", "agenth::c05_send_step_sha1", "agenth::c07_send_step_sha1",
                 "c01::c01_policing_any_class_24", "c02::c02_verdict_44", "c17::c17_prefix_44", "c10::c10_tail_40", "c01::c01_inspect_44")
_KEEP = ("c04::c04_validate_record_44", "c16::c16_verdict_rec_28x")
for _pid, _P in PROPS.items():
    for _j in _P["jobs"]:
        if "quick" in _j["tiers"]:
            continue
        if _j["h"] in _KEEP:
            continue
        if any(_j["h"].startswith(e) for e in _EXPERIMENTAL) and os.environ.get("VERIF_TIER_X") != "1":
            _j["tiers"] = X
        else:
            _j["timeout"] = min(_j.get("timeout", 3600), 2700)
            _j["mem"] = min(_j.get("mem", 8), 40)
