use stun_types::message::*;

fn class_of(c: u8) -> MessageClass {
    match c & 3 {
        0 => MessageClass::Request,
        1 => MessageClass::Indication,
        2 => MessageClass::Success,
        _ => MessageClass::Error,
    }
}

/// RFC 8489 s5 interleaving written independently: bits M11..M7 C1 M6..M4 C0 M3..M0
fn rfc_type(c: u8, m: u16) -> u16 {
    let c0 = (c & 1) as u16;
    let c1 = ((c >> 1) & 1) as u16;
    (m & 0x000f) | (c0 << 4) | ((m & 0x0070) << 1) | (c1 << 8) | ((m & 0x0f80) << 2)
}

#[kani::proof]
#[kani::unwind(5)]
fn c19_class_method_roundtrip() {
    let c: u8 = kani::any();
    kani::assume(c < 4);
    let m: u16 = kani::any();
    kani::assume(m <= 0xfff);
    let t = MessageType::from_class_method(class_of(c), m);
    let mut b = [0u8; 2];
    t.write_into(&mut b);
    assert_eq!(u16::from_be_bytes(b), rfc_type(c, m));
    assert_eq!(t.class(), class_of(c));
    assert_eq!(t.method(), m);
    let back = MessageType::from_bytes(&b).unwrap();
    assert_eq!(back, t);
    kani::cover!(c == 3 && m == 0xfff);
}

#[kani::proof]
#[kani::unwind(5)]
fn c19_all_type_values() {
    let v: u16 = kani::any();
    let b = v.to_be_bytes();
    match MessageType::from_bytes(&b) {
        Err(StunParseError::NotStun) => assert!(v & 0xc000 != 0),
        Err(_) => panic!("unexpected error variant"),
        Ok(t) => {
            assert!(v & 0xc000 == 0);
            let c = t.class();
            let m = t.method();
            assert!(m <= 0xfff);
            // unique (class, method): re-encoding gives the same 14-bit value
            assert_eq!(MessageType::from_class_method(c, m), t);
            let ci = match c {
                MessageClass::Request => 0u8,
                MessageClass::Indication => 1,
                MessageClass::Success => 2,
                MessageClass::Error => 3,
            };
            assert_eq!(rfc_type(ci, m), v);
        }
    }
    kani::cover!(v == 0x3fff);
    kani::cover!(v == 0x8000);
}
