//! Harness entry points for the StunAgent properties (instantiations of agentsteps.rs).
use crate::agentsteps::*;
use crate::agentworld::*;

macro_rules! step {
    ($name:ident, $f:ident, $P:expr, $n:expr) => {
        #[kani::proof]
        #[kani::unwind(5)]
        #[kani::stub(stun_types::message::Message::validate_integrity, validate_stub)]
        #[kani::stub(stun_types::attribute::MessageIntegrity::compute, mac_compute_stub)]
        #[kani::stub(stun_types::attribute::MessageIntegritySha256::compute, mac256_compute_stub)]
        fn $name() {
            $f::<$P>($n);
        }
    };
}

const fn cfg(max_present: usize, ms: [u64; 2], last_ms: u64, sym_bytes: bool, plain: u8, order: u8) -> Cfg {
    Cfg { max_present, ms, last_ms, sym_bytes, plain, order }
}
const ONE: Cfg = cfg(1, [500, 1000], 8000, false, 0, 0);
const ONE_ZERO: Cfg = cfg(1, [0, 1], 0, false, 0, 0);
const ONE_LONG: Cfg = cfg(1, [39_500, 3_840_000], 7_680_000, false, 0, 0);
const ONE_BYTES: Cfg = cfg(1, [500, 1000], 8000, true, 0, 0);
const TWO: Cfg = cfg(2, [500, 1000], 8000, false, 0, 0);
const TWO_BYTES: Cfg = cfg(2, [500, 1000], 8000, true, 0, 0);
const AGG2_O0: Cfg = cfg(2, [500, 1000], 8000, false, 3, 0);
const AGG2_O2: Cfg = cfg(2, [500, 1000], 8000, false, 3, 2);
const AGG2B_O0: Cfg = cfg(2, [500, 1000], 8000, true, 3, 0);
const AGG2B_O2: Cfg = cfg(2, [500, 1000], 8000, true, 3, 2);
const AGG3_O0: Cfg = cfg(3, [500, 1000], 8000, false, 3, 0);
const AGG3_O1: Cfg = cfg(3, [500, 1000], 8000, false, 3, 1);
const AGG3_O2: Cfg = cfg(3, [500, 1000], 8000, false, 3, 2);
const AGG3_O3: Cfg = cfg(3, [500, 1000], 8000, false, 3, 3);
const AGG3_O4: Cfg = cfg(3, [500, 1000], 8000, false, 3, 4);
const AGG3_O5: Cfg = cfg(3, [500, 1000], 8000, false, 3, 5);

macro_rules! sendh {
    ($name:ident, $P:expr, $I:expr, $n:expr) => {
        #[kani::proof]
        #[kani::unwind(5)]
        #[kani::stub(stun_types::message::Message::validate_integrity, validate_stub)]
        #[kani::stub(stun_types::attribute::MessageIntegrity::compute, mac_compute_stub)]
        #[kani::stub(stun_types::attribute::MessageIntegritySha256::compute, mac256_compute_stub)]
        fn $name() {
            send_step::<$P, $I>($n);
        }
    };
}

macro_rules! agg {
    ($name:ident, $P:expr, $n:expr) => {
        #[kani::proof]
        #[kani::unwind(5)]
        #[kani::stub(stun_proto::agent::StunRequestState::poll, stun_proto::agent::StunRequestState::verif_poll_abstract)]
        fn $name() {
            agg_step::<$P>($n);
        }
    };
}
// C05: every request transaction completes exactly once
step!(c05_poll_one, poll_step, 5, &ONE);
step!(c05_handle_step, handle_step, 5, &TWO);
step!(c05_cancel_step, cancel_step, 5, &TWO);
sendh!(c05_send_step, 5, 0, &ONE);
sendh!(c05_send_step_sha1, 5, 1, &ONE);
sendh!(c05_send_step_sha256, 5, 2, &ONE);
agg!(c05_agg2_o0, 5, &AGG2_O0);
agg!(c05_agg2_o2, 5, &AGG2_O2);
agg!(c05_agg3_o0, 5, &AGG3_O0);
agg!(c05_agg3_o1, 5, &AGG3_O1);
agg!(c05_agg3_o2, 5, &AGG3_O2);
agg!(c05_agg3_o3, 5, &AGG3_O3);
agg!(c05_agg3_o4, 5, &AGG3_O4);
agg!(c05_agg3_o5, 5, &AGG3_O5);
// C06: retransmission timing
step!(c06_poll_one, poll_step, 6, &ONE);
step!(c06_poll_one_zero, poll_step, 6, &ONE_ZERO);
step!(c06_poll_one_long, poll_step, 6, &ONE_LONG);
step!(c06_cancel_step, cancel_step, 6, &TWO);
sendh!(c06_send_step, 6, 0, &ONE);
sendh!(c06_send_step_sha1, 6, 1, &ONE);
sendh!(c06_send_step_sha256, 6, 2, &ONE);
agg!(c06_agg2_o0, 6, &AGG2_O0);
agg!(c06_agg2_o2, 6, &AGG2_O2);
agg!(c06_agg3_o0, 6, &AGG3_O0);
agg!(c06_agg3_o3, 6, &AGG3_O3);
agg!(c06_agg3_o5, 6, &AGG3_O5);
// C07: responses to authenticated requests need valid integrity
step!(c07_handle_step, handle_step, 7, &TWO);
sendh!(c07_send_step, 7, 0, &ONE);
sendh!(c07_send_step_sha1, 7, 1, &ONE);
sendh!(c07_send_step_sha256, 7, 2, &ONE);
// C15: validated peers
step!(c15_handle_step, handle_step, 15, &TWO);
sendh!(c15_send_step, 15, 0, &ONE);
sendh!(c15_send_step_sha1, 15, 1, &ONE);
sendh!(c15_send_step_sha256, 15, 2, &ONE);
step!(c15_cancel_step, cancel_step, 15, &TWO);
step!(c15_poll_one, poll_step, 15, &ONE);
// C18: every transmission is the unmodified request
step!(c18_poll_one, poll_step, 18, &ONE_BYTES);
sendh!(c18_send_step, 18, 0, &ONE_BYTES);
sendh!(c18_send_step_sha1, 18, 1, &ONE_BYTES);
sendh!(c18_send_step_sha256, 18, 2, &ONE_BYTES);
step!(c18_cancel_step, cancel_step, 18, &TWO);
agg!(c18_agg2_o0, 18, &AGG2B_O0);
agg!(c18_agg2_o2, 18, &AGG2B_O2);
// C20: sans-IO purity
step!(c20_poll_one, poll_step, 20, &ONE);
sendh!(c20_send_step, 20, 0, &ONE);
sendh!(c20_send_step_sha1, 20, 1, &ONE);
sendh!(c20_send_step_sha256, 20, 2, &ONE);
agg!(c20_agg2_o0, 20, &AGG2_O0);
