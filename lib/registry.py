"""Harness registry: property -> solver jobs.  See DESIGN.md for what each one encodes."""

Q = ("quick", "thorough")
T = ("thorough",)


def K(h, tiers=Q, **kw):
    d = dict(h=h, tiers=tiers, kind="kani")
    d.update(kw)
    return d


def S(h, tiers=Q, **kw):
    d = dict(h=h, tiers=tiers, kind="smt")
    d.update(kw)
    return d


PROPS = {}

PROPS["C19"] = dict(
    functions=["MessageType::{from_class_method,class,method,from_bytes,write_into,to_bytes}", "MessageClass::to_bits",
               "TransactionId::from(u128)", "u128::from(TransactionId)", "MessageHeader::from_bytes",
               "Message::{transaction_id,get_type}", "MessageBuilder::{write_into,build}"],
    bounds="none beyond the type widths: all 4x4096 (class, method), all 65536 type fields, all u128 ids",
    outside=["TransactionId::generate() is not executed (thread-local RNG); it goes through From<u128>, the only constructor"],
    jobs=[
        K("c19::c19_class_method_roundtrip", encodes="from_class_method == RFC interleaving; class/method/from_bytes invert it",
          bounds="all 4 classes x all 4096 methods"),
        K("c19::c19_all_type_values", encodes="from_bytes on every 16-bit value: NotStun iff top bits set, else unique (class, method)",
          bounds="all 65536 values"),
        K("c19::c19_transaction_id_mask", encodes="TransactionId::from(u128) keeps exactly the low 96 bits; equality = low-96 equality",
          bounds="all u128 x u128"),
        K("c19::c19_header_layout", encodes="real builder: type at 0..2, cookie at 4..8, id at 8..20; MessageHeader and Message read it back",
          bounds="all classes x methods x u128 ids, attribute-less message"),
    ],
)

PROPS["C13"] = dict(
    functions=["XorMappedAddress::{new,addr,to_raw,from_raw,write_into}", "XorSocketAddr::{new,xor_addr,addr}",
               "MappedSocketAddr::{from_raw,to_raw,write_into_unchecked,length}", "bytewise_xor!"],
    bounds="none beyond type widths: all IPv4 (2^32) / IPv6 (2^128) addresses x all ports x all u128 transaction ids",
    outside=[],
    jobs=[
        K("c13::c13_ipv4", encodes="new(a,t).addr(t)==a; RFC wire layout; from_raw(to_raw) and write_into agree", bounds="2^32 x 2^16 x 2^128"),
        K("c13::c13_ipv6", encodes="same for IPv6 incl. other-tid => other address", bounds="2^128 x 2^16 x 2^128 x 2^128"),
        K("c13::c13_decode_wire", encodes="decoding any 8/20-byte wire value is the inverse RFC XOR", bounds="all 20-byte values x both lengths x all tids"),
    ],
)

_c08 = []
for _n, _b in [
    ("message_integrity", "value 0..=24 symbolic bytes, all 65536 types"), ("message_integrity_sha256", "value 0..=36"),
    ("userhash", "value 0..=36"), ("fingerprint", "value 0..=8"), ("priority", "value 0..=8"), ("use_candidate", "value 0..=4"),
    ("ice_controlled", "value 0..=12"), ("ice_controlling", "value 0..=12"), ("alternate_server", "value 0..=24"),
    ("xor_mapped_address", "value 0..=24, all tids"), ("utf8_oracle", "real core::str::from_utf8 == RFC 3629 reference on all byte strings of length 0..=4"),
    ("username", "value 0..=6 bytes incl. all UTF-8 forms (from_utf8 replaced by the RFC 3629 reference, see utf8_oracle)"),
    ("realm", "0..=6"), ("nonce", "0..=6"), ("software", "0..=6"), ("alternate_domain", "0..=6"),
    ("username_enc", "all valid UTF-8 strings of 0..=6 bytes"), ("realm_enc", "0..=6"), ("nonce_enc", "0..=6"), ("software_enc", "0..=6"),
    ("alternate_domain_enc", "0..=6"), ("error_code_len0", "value length 0"), ("error_code_len3", "value length 3"), ("error_code_len4", "value length 4, all bytes"),
    ("error_code_len5", "5"), ("error_code_len6", "6"), ("error_code_len8", "8"), ("error_code_all_pairs", "all 65536 class/number byte pairs"),
    ("error_code_enc_len0", "all u16 codes, empty reason"), ("error_code_enc_len1", "all u16 codes x 1-byte reasons"),
    ("error_code_enc_len5", "all u16 codes x all valid UTF-8 reasons of 5 bytes"), ("unknown_attributes", "value 0..=7 (<=3 entries, odd lengths)"),
    ("unknown_attributes_enc", "<=3 entries, all u16"), ("password_algorithm", "value 0..=12"), ("password_algorithms", "value 0..=12 (<=3 entries)"),
    ("password_algorithms_enc", "1..=3 entries"), ("limit_username", "length 0..=800, from_utf8 verdict nondeterministic (stub)"),
    ("limit_realm", "0..=800"), ("limit_nonce", "0..=800"), ("limit_software", "0..=800"), ("limit_error_code", "0..=800"),
]:
    _c08.append(K("c08::c08_" + _n, encodes="T::from_raw / to_raw / getters vs RFC oracle (attr_ref) for " + _n, bounds=_b,
                  mem=12 if _n.startswith("error_code") else 6))

PROPS["C08"] = dict(
    functions=["<T as TryFrom<&RawAttribute>>::try_from for the 19 built-in T", "T::to_raw", "T::length", "T::new", "getters of each T",
               "RawAttribute::{new,check_type_and_len}", "check_len", "MappedSocketAddr::{from_raw,to_raw}", "PasswordAlgorithmValue::{read,write}",
               "core::str::from_utf8 (real, <= 4 bytes, in c08_utf8_oracle)"],
    bounds="all 65536 attribute types; value length 0..=(fixed size + 4) for fixed-size types, 0..=6 bytes of arbitrary content for text "
           "(0..=8 for ERROR-CODE), <=3 list entries, lengths 0..=800 with constant content for the 513/763/767 limits",
    outside=["text content longer than 6 bytes (core::str::from_utf8 is trusted beyond that)", "SASLprep / 128-character limits (TODO in the code)",
             "lists longer than 3 entries"],
    stubs=["core::str::from_utf8 -> RFC 3629 reference utf8_ref in the text/ERROR-CODE harnesses (equivalence with the real function checked for <= 4 bytes in c08_utf8_oracle)",
           "core::str::from_utf8 -> nondeterministic verdict, only in the c08_limit_* harnesses"],
    jobs=_c08,
)

_PARSE_FUNCS = ["Message::from_bytes", "MessageHeader::from_bytes", "MessageType::from_bytes", "RawAttribute::from_bytes",
                "AttributeHeader::parse", "padded_attr_len", "AttributeExt::padded_len", "Fingerprint::from_raw",
                "MessageAttributesIter::next", "Message::{iter_attributes,raw_attribute,has_attribute,class,method,transaction_id,get_type}"]
_CRC_STUB = "Fingerprint::compute -> recorder + unconstrained 4-byte result (the parser logic is decided for every CRC value; the recorded input is asserted to be the message up to the FINGERPRINT with the rewritten length field)"

PROPS["C02"] = dict(
    functions=_PARSE_FUNCS,
    bounds="every byte string of length 0..=32 (quick; <=3 attributes) / 0..=36 and 0..=44 (thorough; <=6 attributes), all contents",
    outside=["buffers longer than 44 bytes / more than 6 attributes", "the text of error messages", "the CRC as a function (C09)"],
    stubs=[_CRC_STUB],
    jobs=[
        K("c02::c02_verdict_32", encodes="from_bytes accepts iff refdec accepts; rejection cause and byte counts; CRC input; class/method/tid", bounds="len 0..=32", mem=8),
        K("c02::c02_iter_32", encodes="iter_attributes in lock-step with refdec's exposed list (type, length, value pointer)", bounds="len 0..=32", mem=10),
        K("c02::c02_has_32", encodes="has_attribute(q) for symbolic q == first exposed match", bounds="len 0..=32, all 65536 q", mem=10),
        K("c02::c02_lookup_32", encodes="raw_attribute(q) for symbolic q == first exposed match", bounds="len 0..=32, all 65536 q", mem=10),
        K("c02::c02_verdict_36", T, encodes="as verdict_32", bounds="len 0..=36", mem=12, timeout=5400),
        K("c02::c02_iter_36", T, encodes="as iter_32 (fits [MI,SHA256,FP] tails)", bounds="len 0..=36", mem=16, timeout=5400),
        K("c02::c02_has_36", T, encodes="as has_32", bounds="len 0..=36", mem=16, timeout=5400),
        K("c02::c02_lookup_36", T, encodes="as lookup_32", bounds="len 0..=36", mem=16, timeout=5400),
        K("c02::c02_verdict_44", T, encodes="as verdict_32", bounds="len 0..=44", mem=20, timeout=7200),
    ],
)

PROPS["C17"] = dict(
    functions=["Message::from_bytes", "MessageHeader::{from_bytes,data_length,transaction_id,get_type}", "MessageType::from_bytes"],
    bounds="every well-formed message of 20..=32 bytes (quick) / ..=44 (thorough) x every cut point; header decoder on every buffer of 0..=24 bytes",
    outside=["messages longer than 44 bytes"],
    stubs=[_CRC_STUB],
    assumptions=["'well-formed message' is judged by the reference decoder refdec, which C02 shows equivalent to Message::from_bytes on the same bounds"],
    jobs=[
        K("c17::c17_prefix_32", encodes="from_bytes(m[..c]) == Truncated{expected: c<20 ? 20 : len(m), actual: c} for every accepted m and cut c", bounds="len(m) <= 32", mem=8),
        K("c17::c17_header_decoder", encodes="MessageHeader::from_bytes on all buffers: Ok iff >=20 bytes, top bits zero, cookie; fields as encoded", bounds="len 0..=24"),
        K("c17::c17_header_vs_parser", encodes="header decoder and parser agree on NotStun and on type/tid/length", bounds="len 20..=28", mem=8),
        K("c17::c17_prefix_44", T, encodes="as prefix_32", bounds="len(m) <= 44", mem=16, timeout=5400),
    ],
)
