#!/bin/sh
# dev copy of the harness crate, so that harness sources can be edited and probed without
# disturbing checks that are running from /verif/kani:  lib/kdev.sh pull | push
case "$1" in
  pull) mkdir -p /tmp/kdev && rsync -a --exclude target --exclude Cargo.toml /verif/kani/ /tmp/kdev/ && sed 's|\.\./shims|/verif/shims|g' /verif/kani/Cargo.toml > /tmp/kdev/Cargo.toml ;;
  push) rsync -a /tmp/kdev/src/ /verif/kani/src/ ;;
esac
