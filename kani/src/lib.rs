#![allow(dead_code, unused_imports, unused_variables, unused_macros, clippy::all)]
#[cfg(kani)]
mod util;
#[cfg(kani)]
mod refdec;
#[cfg(kani)]
mod stubs;
#[cfg(kani)]
#[macro_use]
mod c02;
#[cfg(kani)]
mod c17;
#[cfg(kani)]
mod c10;
#[cfg(kani)]
mod c01;
#[cfg(kani)]
mod c08;
#[cfg(kani)]
mod c13;
#[cfg(kani)]
mod c19;
#[cfg(kani)]
mod agentworld;
#[cfg(kani)]
mod agentsteps;
#[cfg(kani)]
mod agenth;
#[cfg(kani)]
mod c14;
#[cfg(kani)]
mod c09;
#[cfg(kani)]
mod c12;
#[cfg(kani)]
mod c04;
#[cfg(kani)]
mod builder;
#[cfg(kani)]
mod c16;
#[cfg(kani)]
mod blayout;
#[cfg(kani)]
mod c06cfg;
#[cfg(all(kani, verif_native))]
mod smtreplay;
#[cfg(all(kani, verif_native))]
mod hangwit;
