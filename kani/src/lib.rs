#![allow(dead_code, unused_imports, unused_variables, unused_macros, clippy::all)]
#[cfg(kani)]
mod util;
#[cfg(kani)]
mod refdec;
#[cfg(kani)]
mod stubs;
#[cfg(kani)]
#[macro_use]
mod c02;
#[cfg(kani)]
mod c17;
#[cfg(kani)]
mod c10;
#[cfg(kani)]
mod c01;
#[cfg(kani)]
mod c08;
#[cfg(kani)]
mod c13;
#[cfg(kani)]
mod c19;
