#!/bin/sh
# run check commands one after the other: lib/q.sh <name> "C07 --tier quick --only sha1" "C16 --tier quick" ...
cd "$(dirname "$0")/.."
name=$1; shift
for c in "$@"; do
  tag=$(echo "$c" | tr ' /' '__')
  s=$(date +%s)
  ./check $c > out/run-$tag.log 2>&1
  rc=$?
  echo "$c rc=$rc $(( $(date +%s) - s ))s :: $(grep -E '^== .* done' out/run-$tag.log)" >> out/q-$name.txt
done
echo DONE >> out/q-$name.txt
