//! C02: the parser accepts exactly the well-formed messages and exposes them faithfully --
//! Message::from_bytes against the independent reference decoder on one symbolic buffer.
use crate::refdec::*;
use crate::stubs::*;
use crate::util::*;
use stun_types::attribute::*;
use stun_types::message::*;
use stun_types::prelude::*;

pub fn crc_oracle(data: &[u8], off: usize, crc_free: [u8; 4]) -> bool {
    let fpv = [data[off + 4], data[off + 5], data[off + 6], data[off + 7]];
    if NATIVE {
        native_fp_value(data, off) == fpv
    } else {
        // the value the stub handed to the parser (or, if the parser never asked, any value)
        let out = unsafe { if CRC.calls > 0 { CRC.out } else { crc_free } };
        [out[0] ^ 0x53, out[1] ^ 0x54, out[2] ^ 0x55, out[3] ^ 0x4e] == fpv
    }
}

/// what was handed to the CRC is the message up to the FINGERPRINT with the length field
/// covering the attribute (Kani runs only; natively the real CRC is the oracle)
pub fn check_crc_record(data: &[u8], r: &Ref, probe: usize) {
    if NATIVE {
        return;
    }
    unsafe {
        if CRC.calls > 0 {
            assert!(CRC.calls == 1, "C02:crc-consulted-once");
            match r.fp_off {
                None => assert!(false, "C02:crc-consulted-for-a-checkable-fingerprint-only"),
                Some(off) => {
                    assert!(CRC.len == off, "C02:crc-input-is-message-up-to-fingerprint");
                    let l = off + 8 - 20;
                    assert!(CRC.b2 == (l >> 8) as u8 && CRC.b3 == l as u8, "C02:crc-input-length-field-covers-fingerprint");
                    if probe < off && probe != 2 && probe != 3 {
                        assert!(CRC.probe_byte == data[probe], "C02:crc-input-bytes-unmodified");
                    }
                }
            }
        } else {
            assert!(r.fp_off.is_none(), "C02:fingerprint-crc-must-be-checked");
        }
    }
}

/// common prelude: symbolic buffer of up to N bytes, parsed by the real parser and by refdec
#[macro_export]
macro_rules! prelude {
    ($N:expr, $buf:ident, $len:ident, $probe:ident, $q:ident, $data:ident, $res:ident, $r:ident) => {
        let mut $buf: [u8; $N] = kani::any();
        let $len: usize = kani::any();
        kani::assume($len <= $N);
        let $probe: usize = kani::any();
        let $q: u16 = kani::any();
        let crc_free: [u8; 4] = kani::any();
        if NATIVE {
            native_realize(&mut $buf, $len, &[], realize_mask());
        }
        unsafe {
            CRC.probe = $probe;
        }
        let $data = &$buf[..$len];
        let $res = Message::from_bytes($data);
        let $r = refdec($data, |off| crc_oracle($data, off, crc_free));
        kani::assume(!$r.overflow);
    };
}

/// accept/reject equivalence, rejection causes, CRC input, header fields
fn verdict_diff<const N: usize>() {
    prelude!(N, buf, len, probe, q, data, res, r);
    if r.excess > 0 {
        // bytes beyond the declared length: refused, or at the very least never interpreted
        match &res {
            Err(_) => {}
            Ok(_) => assert!(r.verdict == Verdict::Accept, "C02:excess-bytes-interpreted-as-attributes"),
        }
    } else {
        check_crc_record(data, &r, probe);
        match (&res, r.verdict) {
            (Ok(_), Verdict::Accept) => {}
            (Ok(_), Verdict::Attr { causes, .. }) => {
                assert!(causes & C_AFTER_FP == 0, "C02:attribute-after-fingerprint-accepted");
                assert!(causes & C_AFTER_INT == 0, "C02:attribute-after-integrity-accepted");
                assert!(causes & (C_FP_CRC | C_FP_LEN) == 0, "C02:bad-fingerprint-accepted");
                assert!(false, "C02:untiled-body-accepted");
            }
            (Ok(_), _) => assert!(false, "C02:bad-header-accepted"),
            (Err(_), Verdict::Accept) => assert!(false, "C02:well-formed-message-refused"),
            (Err(e), Verdict::ShortHeader) => {
                assert!(matches!(e, StunParseError::Truncated { expected: 20, actual } if *actual == len), "C02:short-header-cause");
            }
            (Err(e), Verdict::NotStun) => assert!(matches!(e, StunParseError::NotStun), "C02:not-stun-cause"),
            (Err(e), Verdict::ShortBody { expected }) => {
                assert!(
                    matches!(e, StunParseError::Truncated { expected: x, actual } if *x == expected && *actual == len),
                    "C02:short-body-cause"
                );
            }
            (Err(e), Verdict::Attr { typ, causes, .. }) => {
                let ok = match e {
                    StunParseError::Truncated { .. } => causes & (C_TRUNC | C_FP_LEN) != 0,
                    StunParseError::TooLarge { .. } => causes & C_FP_LEN != 0,
                    StunParseError::AttributeAfterIntegrity(t) => causes & C_AFTER_INT != 0 && t.value() == typ,
                    StunParseError::AttributeAfterFingerprint(t) => causes & C_AFTER_FP != 0 && t.value() == typ,
                    StunParseError::FingerprintMismatch => causes & C_FP_CRC != 0,
                    _ => false,
                };
                assert!(ok, "C02:rejection-names-its-cause");
            }
        }
    }
    if let Ok(msg) = &res {
        if r.verdict == Verdict::Accept {
            // header fields are those in the buffer
            let c = ((data[0] & 1) << 1) | ((data[1] >> 4) & 1);
            let ty = be16(data, 0) as u16;
            let m = (ty & 0xf) | ((ty & 0xe0) >> 1) | ((ty & 0x3e00) >> 2);
            assert!(msg.class() == class_of(c), "C02:class-as-encoded");
            assert!(msg.method() == m, "C02:method-as-encoded");
            let mut idb = [0u8; 16];
            idb[4..].copy_from_slice(&data[8..20]);
            assert!(msg.transaction_id() == TransactionId::from(u128::from_be_bytes(idb)), "C02:transaction-id-as-encoded");
        }
    }
    kani::cover!(res.is_ok() && r.n == 2 && r.excess == 0);
    kani::cover!(res.is_ok() && r.fp_off.is_some() && r.excess == 0);
    kani::cover!(res.is_ok() && r.excess > 0);
    kani::cover!(res.is_err() && matches!(r.verdict, Verdict::Attr { .. }));
}

/// the ordered attribute sequence of an accepted message, in lock-step with the reference
fn iter_diff<const N: usize>() {
    prelude!(N, buf, len, probe, q, data, res, r);
    if let Ok(msg) = &res {
        if r.verdict == Verdict::Accept {
            let mut it = msg.iter_attributes();
            let mut k = 0;
            while k < r.n {
                if r.exposed[k] {
                    match it.next() {
                        None => assert!(false, "C02:exposed-attribute-missing"),
                        Some(a) => {
                            assert!(a.get_type().value() == r.typ[k], "C02:attribute-type-as-encoded");
                            assert!(a.value.len() == r.alen[k] && a.length() as usize == r.alen[k], "C02:attribute-length-as-encoded");
                            assert!(a.value.as_ptr() == data[r.off[k] + 4..].as_ptr(), "C02:attribute-value-as-encoded");
                        }
                    }
                }
                k += 1;
            }
            assert!(it.next().is_none(), "C02:extra-attribute-exposed");
        }
    }
    kani::cover!(res.is_ok() && r.verdict == Verdict::Accept && r.n >= 2 && !r.exposed[1]);
    kani::cover!(res.is_ok() && r.verdict == Verdict::Accept && r.n >= 3 && r.exposed[2]);
}

fn first_exposed(r: &Ref, q: u16) -> Option<usize> {
    let mut first_q: Option<usize> = None;
    let mut k = 0;
    while k < r.n {
        if r.exposed[k] && first_q.is_none() && r.typ[k] == q {
            first_q = Some(k);
        }
        k += 1;
    }
    first_q
}

/// lookups return the first exposed match: has_attribute
fn has_diff<const N: usize>() {
    prelude!(N, buf, len, probe, q, data, res, r);
    if let Ok(msg) = &res {
        if r.verdict == Verdict::Accept {
            let first_q = first_exposed(&r, q);
            assert!(msg.has_attribute(AttributeType::new(q)) == first_q.is_some(), "C02:has-attribute-is-first-match");
            kani::cover!(first_q == Some(1) && r.n >= 3 && r.typ[2] == q);
            kani::cover!(first_q.is_none() && r.n >= 2 && r.typ[1] == q);
        }
    }
}

/// lookups return the first exposed match: raw_attribute
fn lookup_diff<const N: usize>() {
    prelude!(N, buf, len, probe, q, data, res, r);
    if let Ok(msg) = &res {
        if r.verdict == Verdict::Accept {
            let first_q = first_exposed(&r, q);
            match (msg.raw_attribute(AttributeType::new(q)), first_q) {
                (None, None) => {}
                (Some(a), Some(k)) => {
                    assert!(a.get_type().value() == q, "C02:lookup-is-first-match");
                    assert!(a.value.len() == r.alen[k] && a.value.as_ptr() == data[r.off[k] + 4..].as_ptr(), "C02:lookup-is-first-match");
                }
                _ => assert!(false, "C02:lookup-is-first-match"),
            }
            kani::cover!(first_q == Some(1) && r.n >= 3 && r.typ[2] == q);
            kani::cover!(first_q.is_none() && r.n >= 2 && r.typ[1] == q);
        }
    }
}

macro_rules! c02_harness {
    ($name:ident, $f:ident, $N:expr, $unw:expr) => {
        #[kani::proof]
        #[kani::unwind($unw)]
        #[kani::stub(stun_types::attribute::Fingerprint::compute, crc_stub)]
        fn $name() {
            $f::<$N>();
        }
    };
}
c02_harness!(c02_verdict_32, verdict_diff, 32, 5);
c02_harness!(c02_iter_32, iter_diff, 32, 5);
c02_harness!(c02_lookup_32, lookup_diff, 32, 5);
c02_harness!(c02_has_32, has_diff, 32, 5);
c02_harness!(c02_has_36, has_diff, 36, 6);
c02_harness!(c02_has_44, has_diff, 44, 8);
c02_harness!(c02_verdict_36, verdict_diff, 36, 6);
c02_harness!(c02_iter_36, iter_diff, 36, 6);
c02_harness!(c02_lookup_36, lookup_diff, 36, 6);
c02_harness!(c02_verdict_44, verdict_diff, 44, 8);
c02_harness!(c02_iter_44, iter_diff, 44, 8);
c02_harness!(c02_lookup_44, lookup_diff, 44, 8);
