//! C08: each built-in attribute decodes exactly the RFC encodings and round-trips.
//! One decode harness and one encode harness per type.  `attr_ref` (the oracles below) is
//! written from RFC 8489 s14 / RFC 8445 s7.1, not from the implementation.
use crate::util::*;
use std::net::{IpAddr, Ipv4Addr, Ipv6Addr, SocketAddr};
use stun_types::attribute::*;
use stun_types::message::*;
use stun_types::prelude::*;

/// symbolic raw attribute: any type, value = first `len` bytes of an N-byte symbolic array
macro_rules! sym_raw {
    ($N:expr, $t:ident, $val:ident, $len:ident, $i:ident) => {
        let $t: u16 = kani::any();
        let $val: [u8; $N] = kani::any();
        let $len: usize = kani::any();
        kani::assume($len <= $N);
        let $i: usize = kani::any();
    };
}

macro_rules! wrong_type {
    ($T:ty, $r:expr, $t:expr, $code:expr) => {
        if $t != $code {
            assert!(
                matches!(<$T>::from_raw(&$r), Err(StunParseError::WrongAttributeImplementation)),
                "C08:other-type-refused-as-wrong-implementation"
            );
            return;
        }
    };
}

/// re-encoding: to_raw(from_raw(r)) has the type code, the same value bytes and decodes to an
/// equal value (used for the types without ignored/reserved bits)
macro_rules! reencode_exact {
    ($T:ty, $v:expr, $val:expr, $len:expr, $code:expr, $i:expr) => {
        let r2 = $v.to_raw();
        assert!(r2.get_type() == AttributeType::new($code), "C08:type-code");
        assert!(r2.header.length() as usize == $len && r2.value.len() == $len, "C08:reencode-length");
        assert!($v.length() as usize == $len, "C08:length-getter");
        assert!(same_bytes(&r2.value, &$val[..$len], $i), "C08:reencode-stable");
        assert!(<$T>::from_raw(&r2).unwrap() == $v, "C08:decode-encode-identity");
    };
}

// ---------------------------------------------------------------- fixed-size byte values

#[kani::proof]
#[kani::unwind(34)]
fn c08_message_integrity() {
    sym_raw!(24, t, val, len, i);
    let r = raw(t, &val[..len]);
    wrong_type!(MessageIntegrity, r, t, 0x0008);
    match MessageIntegrity::from_raw(&r) {
        Ok(v) => {
            assert!(len == 20, "C08:mi-accepts-only-20");
            assert!(same_bytes(v.hmac(), &val[..20], i), "C08:mi-hmac-getter");
            reencode_exact!(MessageIntegrity, v, val, len, 0x0008, i);
        }
        Err(_) => assert!(len != 20, "C08:mi-rejects-valid"),
    }
    kani::cover!(t == 0x0008 && len == 20);
    kani::cover!(t == 0x0008 && len == 24);
}

#[kani::proof]
#[kani::unwind(38)]
fn c08_message_integrity_sha256() {
    sym_raw!(36, t, val, len, i);
    let r = raw(t, &val[..len]);
    wrong_type!(MessageIntegritySha256, r, t, 0x001C);
    let valid = len >= 16 && len <= 32 && len % 4 == 0;
    match MessageIntegritySha256::from_raw(&r) {
        Ok(v) => {
            assert!(valid, "C08:sha256-accepts-only-16..32-step-4");
            assert!(same_bytes(v.hmac(), &val[..len], i), "C08:sha256-hmac-getter");
            reencode_exact!(MessageIntegritySha256, v, val, len, 0x001C, i);
            // constructor accepts the same lengths
            assert!(MessageIntegritySha256::new(&val[..len]).unwrap() == v, "C08:sha256-new-eq");
        }
        Err(_) => {
            assert!(!valid, "C08:sha256-rejects-valid");
            assert!(MessageIntegritySha256::new(&val[..len]).is_err(), "C08:sha256-new-rejects-too");
        }
    }
    kani::cover!(t == 0x001C && len == 16);
    kani::cover!(t == 0x001C && len == 32);
    kani::cover!(t == 0x001C && len == 36);
    kani::cover!(t == 0x001C && len == 18);
}

#[kani::proof]
#[kani::unwind(38)]
fn c08_userhash() {
    sym_raw!(36, t, val, len, i);
    let r = raw(t, &val[..len]);
    wrong_type!(Userhash, r, t, 0x001E);
    match Userhash::from_raw(&r) {
        Ok(v) => {
            assert!(len == 32, "C08:userhash-accepts-only-32");
            assert!(same_bytes(v.hash(), &val[..32], i), "C08:userhash-getter");
            reencode_exact!(Userhash, v, val, len, 0x001E, i);
        }
        Err(_) => assert!(len != 32, "C08:userhash-rejects-valid"),
    }
    kani::cover!(t == 0x001E && len == 32);
    kani::cover!(t == 0x001E && len == 36);
}

#[kani::proof]
#[kani::unwind(10)]
fn c08_fingerprint() {
    sym_raw!(8, t, val, len, i);
    let r = raw(t, &val[..len]);
    wrong_type!(Fingerprint, r, t, 0x8028);
    match Fingerprint::from_raw(&r) {
        Ok(v) => {
            assert!(len == 4, "C08:fingerprint-accepts-only-4");
            let x = u32::from_be_bytes([val[0], val[1], val[2], val[3]]) ^ 0x5354_554e;
            assert!(u32::from_be_bytes(*v.fingerprint()) == x, "C08:fingerprint-xor-constant");
            reencode_exact!(Fingerprint, v, val, len, 0x8028, i);
            assert!(Fingerprint::new(x.to_be_bytes()) == v, "C08:fingerprint-new-eq");
        }
        Err(_) => assert!(len != 4, "C08:fingerprint-rejects-valid"),
    }
    kani::cover!(t == 0x8028 && len == 4);
    kani::cover!(t == 0x8028 && len == 8);
}

#[kani::proof]
#[kani::unwind(10)]
fn c08_priority() {
    sym_raw!(8, t, val, len, i);
    let r = raw(t, &val[..len]);
    wrong_type!(Priority, r, t, 0x0024);
    match Priority::from_raw(&r) {
        Ok(v) => {
            assert!(len == 4, "C08:priority-accepts-only-4");
            assert!(v.priority() == u32::from_be_bytes([val[0], val[1], val[2], val[3]]), "C08:priority-getter");
            reencode_exact!(Priority, v, val, len, 0x0024, i);
            assert!(Priority::new(v.priority()) == v, "C08:priority-new-eq");
        }
        Err(_) => assert!(len != 4, "C08:priority-rejects-valid"),
    }
    kani::cover!(t == 0x0024 && len == 4);
    kani::cover!(t == 0x0024 && len == 0);
}

#[kani::proof]
#[kani::unwind(10)]
fn c08_use_candidate() {
    sym_raw!(4, t, val, len, i);
    let r = raw(t, &val[..len]);
    wrong_type!(UseCandidate, r, t, 0x0025);
    match UseCandidate::from_raw(&r) {
        Ok(v) => {
            assert!(len == 0, "C08:use-candidate-accepts-only-empty");
            reencode_exact!(UseCandidate, v, val, len, 0x0025, i);
        }
        Err(_) => assert!(len != 0, "C08:use-candidate-rejects-valid"),
    }
    kani::cover!(t == 0x0025 && len == 0);
    kani::cover!(t == 0x0025 && len == 4);
}

#[kani::proof]
#[kani::unwind(14)]
fn c08_ice_controlled() {
    sym_raw!(12, t, val, len, i);
    let r = raw(t, &val[..len]);
    wrong_type!(IceControlled, r, t, 0x8029);
    match IceControlled::from_raw(&r) {
        Ok(v) => {
            assert!(len == 8, "C08:ice-controlled-accepts-only-8");
            let mut w = [0u8; 8];
            w.copy_from_slice(&val[..8]);
            assert!(v.tie_breaker() == u64::from_be_bytes(w), "C08:ice-controlled-getter");
            reencode_exact!(IceControlled, v, val, len, 0x8029, i);
            assert!(IceControlled::new(v.tie_breaker()) == v, "C08:ice-controlled-new-eq");
        }
        Err(_) => assert!(len != 8, "C08:ice-controlled-rejects-valid"),
    }
    kani::cover!(t == 0x8029 && len == 8);
    kani::cover!(t == 0x8029 && len == 12);
}

#[kani::proof]
#[kani::unwind(14)]
fn c08_ice_controlling() {
    sym_raw!(12, t, val, len, i);
    let r = raw(t, &val[..len]);
    wrong_type!(IceControlling, r, t, 0x802A);
    match IceControlling::from_raw(&r) {
        Ok(v) => {
            assert!(len == 8, "C08:ice-controlling-accepts-only-8");
            let mut w = [0u8; 8];
            w.copy_from_slice(&val[..8]);
            assert!(v.tie_breaker() == u64::from_be_bytes(w), "C08:ice-controlling-getter");
            reencode_exact!(IceControlling, v, val, len, 0x802A, i);
            assert!(IceControlling::new(v.tie_breaker()) == v, "C08:ice-controlling-new-eq");
        }
        Err(_) => assert!(len != 8, "C08:ice-controlling-rejects-valid"),
    }
    kani::cover!(t == 0x802A && len == 8);
    kani::cover!(t == 0x802A && len == 4);
}

// ---------------------------------------------------------------- addresses

/// RFC 8489 s14.1/14.2 value validity: reserved byte, family 1 with 8 bytes or family 2 with 20
fn addr_valid(val: &[u8], len: usize) -> bool {
    len >= 4 && ((val[1] == 1 && len == 8) || (val[1] == 2 && len == 20))
}

fn addr_ref(val: &[u8]) -> SocketAddr {
    let port = u16::from_be_bytes([val[2], val[3]]);
    if val[1] == 1 {
        SocketAddr::new(IpAddr::V4(Ipv4Addr::new(val[4], val[5], val[6], val[7])), port)
    } else {
        let mut w = [0u8; 16];
        w.copy_from_slice(&val[4..20]);
        SocketAddr::new(IpAddr::V6(Ipv6Addr::from(w)), port)
    }
}

#[kani::proof]
#[kani::unwind(26)]
fn c08_alternate_server() {
    sym_raw!(24, t, val, len, i);
    let r = raw(t, &val[..len]);
    wrong_type!(AlternateServer, r, t, 0x8023);
    let valid = addr_valid(&val, len);
    match AlternateServer::from_raw(&r) {
        Ok(v) => {
            assert!(valid, "C08:alternate-server-accepts-only-rfc-families-and-lengths");
            assert!(v.server() == addr_ref(&val), "C08:alternate-server-getter");
            let r2 = v.to_raw();
            assert!(r2.get_type() == AttributeType::new(0x8023), "C08:type-code");
            assert!(r2.value.len() == len && r2.header.length() as usize == len && v.length() as usize == len, "C08:reencode-length");
            assert!(r2.value[0] == 0, "C08:address-reserved-byte-zero");
            if i >= 1 {
                assert!(same_bytes(&r2.value, &val[..len], i), "C08:reencode-stable");
            }
            assert!(AlternateServer::from_raw(&r2).unwrap() == v, "C08:decode-encode-identity");
            assert!(AlternateServer::new(v.server()) == v, "C08:alternate-server-new-eq");
        }
        Err(_) => assert!(!valid, "C08:alternate-server-rejects-valid"),
    }
    kani::cover!(t == 0x8023 && len == 8 && val[1] == 1);
    kani::cover!(t == 0x8023 && len == 20 && val[1] == 2);
    kani::cover!(t == 0x8023 && len == 20 && val[1] == 1);
    kani::cover!(t == 0x8023 && len == 2);
}

#[kani::proof]
#[kani::unwind(26)]
fn c08_xor_mapped_address() {
    sym_raw!(24, t, val, len, i);
    let tid: u128 = kani::any();
    let r = raw(t, &val[..len]);
    wrong_type!(XorMappedAddress, r, t, 0x0020);
    let valid = addr_valid(&val, len);
    match XorMappedAddress::from_raw(&r) {
        Ok(v) => {
            assert!(valid, "C08:xor-mapped-accepts-only-rfc-families-and-lengths");
            let r2 = v.to_raw();
            assert!(r2.get_type() == AttributeType::new(0x0020), "C08:type-code");
            assert!(r2.value.len() == len && r2.header.length() as usize == len && v.length() as usize == len, "C08:reencode-length");
            assert!(r2.value[0] == 0, "C08:address-reserved-byte-zero");
            if i >= 1 {
                assert!(same_bytes(&r2.value, &val[..len], i), "C08:reencode-stable");
            }
            assert!(XorMappedAddress::from_raw(&r2).unwrap() == v, "C08:decode-encode-identity");
            let a = v.addr(tid.into());
            assert!(XorMappedAddress::new(a, tid.into()) == v, "C08:xor-mapped-new-eq");
        }
        Err(_) => assert!(!valid, "C08:xor-mapped-rejects-valid"),
    }
    kani::cover!(t == 0x0020 && len == 8 && val[1] == 1);
    kani::cover!(t == 0x0020 && len == 20 && val[1] == 2);
    kani::cover!(t == 0x0020 && len == 8 && val[1] == 2);
    kani::cover!(t == 0x0020 && len == 3);
}

// ---------------------------------------------------------------- text attributes

/// Stands in for core::str::from_utf8 in the text harnesses: same verdict as the RFC 3629
/// reference `utf8_ref`.  The real core::str::from_utf8 is compared against `utf8_ref` on all
/// byte strings of length 0..=4 (every UTF-8 sequence form) in `c08_utf8_oracle`; unrolling its
/// word-at-a-time loops inside every attribute harness costs 20 minutes each (measured).
pub fn utf8_via_ref(v: &[u8]) -> Result<&str, std::str::Utf8Error> {
    if utf8_ref(v) {
        Ok(unsafe { std::str::from_utf8_unchecked(v) })
    } else {
        utf8_error()
    }
}

/// a genuine Utf8Error value, obtained without going through the stubbed function
fn utf8_error() -> Result<&'static str, std::str::Utf8Error> {
    let mut bad = [0xffu8];
    match std::str::from_utf8_mut(&mut bad[..]) {
        Ok(_) => Ok(""),
        Err(e) => Err(e),
    }
}

#[kani::proof]
#[kani::unwind(6)]
fn c08_utf8_oracle() {
    let val: [u8; 4] = kani::any();
    let len: usize = kani::any();
    kani::assume(len <= 4);
    assert!(std::str::from_utf8(&val[..len]).is_ok() == utf8_ref(&val[..len]), "C08:utf8-oracle-agrees-with-core");
    kani::cover!(len == 4 && val[0] == 0xf4 && utf8_ref(&val[..len]));
    kani::cover!(len == 3 && val[0] == 0xed && !utf8_ref(&val[..len]));
}

macro_rules! text_decode {
    ($name:ident, $T:ty, $code:expr, $get:ident, $N:expr, $unw:expr) => {
        #[kani::proof]
        #[kani::unwind($unw)]
        #[kani::stub(std::str::from_utf8, utf8_via_ref)]
        fn $name() {
            sym_raw!($N, t, val, len, i);
            let r = raw(t, &val[..len]);
            wrong_type!($T, r, t, $code);
            let valid = utf8_ref(&val[..len]);
            match <$T>::from_raw(&r) {
                Ok(v) => {
                    assert!(valid, "C08:text-accepts-only-utf8");
                    assert!(same_bytes(v.$get().as_bytes(), &val[..len], i), "C08:text-getter");
                    reencode_exact!($T, v, val, len, $code, i);
                }
                Err(_) => assert!(!valid, "C08:text-rejects-valid-utf8"),
            }
            kani::cover!(t == $code && len == $N && valid && val[0] >= 0x80);
            kani::cover!(t == $code && len == 0);
            kani::cover!(t == $code && len == $N && !valid);
        }
    };
}

text_decode!(c08_username, Username, 0x0006, username, 6, 9);
text_decode!(c08_realm, Realm, 0x0014, realm, 6, 9);
text_decode!(c08_nonce, Nonce, 0x0015, nonce, 6, 9);
text_decode!(c08_software, Software, 0x8022, software, 6, 9);
text_decode!(c08_alternate_domain, AlternateDomain, 0x8003, domain, 6, 9);

/// constructors: `new(s)` accepts every in-limit string and `to_raw`/`from_raw` round-trip it
macro_rules! text_encode {
    ($name:ident, $T:ty, $code:expr, $get:ident, $new:expr) => {
        #[kani::proof]
        #[kani::unwind(9)]
        #[kani::stub(std::str::from_utf8, utf8_via_ref)]
        fn $name() {
            let val: [u8; 6] = kani::any();
            let len: usize = kani::any();
            kani::assume(len <= 6);
            let i: usize = kani::any();
            kani::assume(utf8_ref(&val[..len]));
            let s = unsafe { std::str::from_utf8_unchecked(&val[..len]) };
            let v: $T = ($new)(s);
            assert!(same_bytes(v.$get().as_bytes(), &val[..len], i), "C08:text-new-getter");
            assert!(v.get_type() == AttributeType::new($code), "C08:type-code");
            assert!(v.length() as usize == len, "C08:length-getter");
            let r = v.to_raw();
            assert!(r.get_type() == AttributeType::new($code), "C08:type-code");
            assert!(r.header.length() as usize == len && r.value.len() == len, "C08:encode-length");
            assert!(same_bytes(&r.value, &val[..len], i), "C08:text-wire-layout");
            assert!(<$T>::from_raw(&r).unwrap() == v, "C08:decode-encode-identity");
            kani::cover!(len == 6 && val[0] >= 0x80);
            kani::cover!(len == 0);
        }
    };
}

text_encode!(c08_username_enc, Username, 0x0006, username, |s: &str| Username::new(s).unwrap());
text_encode!(c08_realm_enc, Realm, 0x0014, realm, |s: &str| Realm::new(s).unwrap());
text_encode!(c08_nonce_enc, Nonce, 0x0015, nonce, |s: &str| Nonce::new(s).unwrap());
text_encode!(c08_software_enc, Software, 0x8022, software, |s: &str| Software::new(s).unwrap());
text_encode!(c08_alternate_domain_enc, AlternateDomain, 0x8003, domain, |s: &str| AlternateDomain::new(s));

// ---------------------------------------------------------------- ERROR-CODE

/// The value length is a compile-time constant per instantiation: ErrorCode::to_raw builds a Vec
/// with `with_capacity(len)`, push and extend, and a symbolic capacity drives CBMC past 20 GB
/// (measured).  Instantiated for lengths 0, 3, 4, 5, 6 and 8.
fn error_code_decode<const LEN: usize>() {
    let t: u16 = kani::any();
    let val: [u8; 8] = kani::any();
    let len: usize = LEN;
    let i: usize = kani::any();
    let r = raw(t, &val[..len]);
    wrong_type!(ErrorCode, r, t, 0x0009);
    // RFC 8489 s14.8: 21 reserved bits, 3-bit class 3..=6, number 0..=99, UTF-8 reason
    let class = if len >= 4 { (val[2] & 7) as u16 } else { 0 };
    let number = if len >= 4 { val[3] as u16 } else { 0 };
    let valid = len >= 4 && class >= 3 && class <= 6 && number <= 99 && utf8_ref(&val[4.min(len)..len]);
    match ErrorCode::from_raw(&r) {
        Ok(v) => {
            assert!(valid, "C08:error-code-accepts-only-class-3..6-number-0..99-utf8");
            assert!(v.code() == class * 100 + number, "C08:error-code-getter");
            assert!(same_bytes(v.reason().as_bytes(), &val[4..len], i), "C08:error-reason-getter");
            assert!(v.length() as usize == len && v.get_type() == AttributeType::new(0x0009), "C08:length-getter");
            // Re-encoding is decided elsewhere: the code bytes for all 65536 byte pairs in
            // c08_error_code_all_pairs, and from_raw(to_raw(v)) == v for every constructible
            // (code, reason) in c08_error_code_enc_len*; chaining decode -> to_raw -> decode in this
            // harness does not finish (> 12 GB, measured).
        }
        Err(_) => assert!(!valid, "C08:error-code-rejects-valid"),
    }
    kani::cover!(t == 0x0009 && (valid || len < 4));
    kani::cover!(t == 0x0009 && !valid);
}

macro_rules! error_code_decode_len {
    ($name:ident, $L:expr) => {
        #[kani::proof]
        #[kani::unwind(9)]
        #[kani::stub(std::str::from_utf8, utf8_via_ref)]
        fn $name() {
            error_code_decode::<$L>();
        }
    };
}
error_code_decode_len!(c08_error_code_len0, 0);
error_code_decode_len!(c08_error_code_len3, 3);
error_code_decode_len!(c08_error_code_len4, 4);
error_code_decode_len!(c08_error_code_len5, 5);
error_code_decode_len!(c08_error_code_len6, 6);
error_code_decode_len!(c08_error_code_len8, 8);


/// all 65536 (class byte, number byte) pairs in one query
#[kani::proof]
#[kani::unwind(9)]
fn c08_error_code_all_pairs() {
    let b2: u8 = kani::any();
    let b3: u8 = kani::any();
    let val = [0u8, 0, b2, b3];
    let r = raw(0x0009, &val);
    let class = (b2 & 7) as u16;
    let valid = class >= 3 && class <= 6 && b3 <= 99;
    match ErrorCode::from_raw(&r) {
        Ok(v) => {
            assert!(valid, "C08:error-code-accepts-only-class-3..6-number-0..99-utf8");
            assert!(v.code() == class * 100 + b3 as u16 && v.code() >= 300 && v.code() <= 699, "C08:error-code-getter");
            assert!(v.reason().is_empty(), "C08:error-reason-getter");
        }
        Err(_) => assert!(!valid, "C08:error-code-rejects-valid"),
    }
    kani::cover!(b2 == 3 && b3 == 0);
    kani::cover!(b2 == 0xfe && b3 == 99);
}

/// constructor side: every code 300..=699 with an in-limit reason encodes to the RFC layout
fn error_code_encode<const LEN: usize>() {
    let code: u16 = kani::any();
    let val: [u8; 5] = kani::any();
    let len: usize = LEN;
    let i: usize = kani::any();
    kani::assume(utf8_ref(&val[..len]));
    let s = unsafe { std::str::from_utf8_unchecked(&val[..len]) };
    match ErrorCode::new(code, s) {
        Err(_) => assert!(code < 300 || code > 699, "C08:error-code-new-rejects-valid"),
        Ok(v) => {
            assert!(code >= 300 && code <= 699, "C08:error-code-new-accepts-only-300..699");
            assert!(v.code() == code, "C08:error-code-getter");
            assert!(v.length() as usize == 4 + len, "C08:length-getter");
            let r = v.to_raw();
            assert!(r.get_type() == AttributeType::new(0x0009), "C08:type-code");
            assert!(r.value.len() == 4 + len && r.header.length() as usize == 4 + len, "C08:encode-length");
            assert!(r.value[0] == 0 && r.value[1] == 0 && r.value[2] as u16 == code / 100 && r.value[3] as u16 == code % 100, "C08:error-code-wire-layout");
            assert!(same_bytes(&r.value[4..], &val[..len], i), "C08:error-reason-wire-layout");
            let mut copy = [0u8; 9];
            copy[..4 + len].copy_from_slice(&r.value);
            let r3 = raw(0x0009, &copy[..4 + len]);
            match ErrorCode::from_raw(&r3) {
                Ok(v3) => assert!(v3.code() == code && same_bytes(v3.reason().as_bytes(), &val[..len], i), "C08:decode-encode-identity"),
                Err(_) => assert!(false, "C08:decode-encode-identity"),
            }
            // the builder API agrees with new()
            let v4 = ErrorCode::builder(code).reason(s).build().unwrap();
            assert!(v4.code() == code && same_bytes(v4.reason().as_bytes(), &val[..len], i), "C08:error-code-builder-eq");
        }
    }
    assert!(ErrorCode::builder(code).build().is_ok() == (code >= 300 && code <= 699), "C08:error-code-builder-range");
    kani::cover!(code == 699);
    kani::cover!(code == 300);
    kani::cover!(code == 700);
}

macro_rules! error_code_encode_len {
    ($name:ident, $L:expr) => {
        #[kani::proof]
        #[kani::unwind(9)]
        #[kani::stub(std::str::from_utf8, utf8_via_ref)]
        fn $name() {
            error_code_encode::<$L>();
        }
    };
}
error_code_encode_len!(c08_error_code_enc_len0, 0);
error_code_encode_len!(c08_error_code_enc_len1, 1);
error_code_encode_len!(c08_error_code_enc_len5, 5);

// ---------------------------------------------------------------- 16-bit lists

#[kani::proof]
#[kani::unwind(6)]
fn c08_unknown_attributes() {
    sym_raw!(7, t, val, len, i);
    let q: u16 = kani::any();
    let r = raw(t, &val[..len]);
    wrong_type!(UnknownAttributes, r, t, 0x000A);
    let valid = len % 2 == 0;
    match UnknownAttributes::from_raw(&r) {
        Ok(v) => {
            assert!(valid, "C08:unknown-attributes-accepts-only-16-bit-lists");
            let n = len / 2;
            let present = (n >= 1 && u16::from_be_bytes([val[0], val[1]]) == q)
                || (n >= 2 && u16::from_be_bytes([val[2], val[3]]) == q)
                || (n >= 3 && u16::from_be_bytes([val[4], val[5]]) == q);
            assert!(v.has_attribute(AttributeType::new(q)) == present, "C08:unknown-attributes-getter");
            reencode_exact!(UnknownAttributes, v, val, len, 0x000A, i);
        }
        Err(_) => assert!(!valid, "C08:unknown-attributes-rejects-valid"),
    }
    kani::cover!(t == 0x000A && len == 6);
    kani::cover!(t == 0x000A && len == 0);
    kani::cover!(t == 0x000A && len == 5);
}

#[kani::proof]
#[kani::unwind(6)]
fn c08_unknown_attributes_enc() {
    let a: [u16; 3] = kani::any();
    let n: usize = kani::any();
    kani::assume(n <= 3);
    let i: usize = kani::any();
    let types = [AttributeType::new(a[0]), AttributeType::new(a[1]), AttributeType::new(a[2])];
    let v = UnknownAttributes::new(&types[..n]);
    assert!(v.length() as usize == 2 * n, "C08:length-getter");
    let r = v.to_raw();
    assert!(r.get_type() == AttributeType::new(0x000A), "C08:type-code");
    assert!(r.value.len() == 2 * n && r.header.length() as usize == 2 * n, "C08:encode-length");
    let wire = [(a[0] >> 8) as u8, a[0] as u8, (a[1] >> 8) as u8, a[1] as u8, (a[2] >> 8) as u8, a[2] as u8];
    assert!(same_bytes(&r.value, &wire[..2 * n], i), "C08:unknown-attributes-wire-layout");
    assert!(UnknownAttributes::from_raw(&r).unwrap() == v, "C08:decode-encode-identity");
    kani::cover!(n == 3);
    kani::cover!(n == 0);
}

// ---------------------------------------------------------------- PASSWORD-ALGORITHM(S)

fn algo_ref(b: &[u8]) -> Option<PasswordAlgorithmValue> {
    // RFC 8489 s14.11/14.12: 16-bit algorithm, 16-bit parameter length, parameters padded to 4.
    // Registered algorithms: 1 = MD5, 2 = SHA-256, both with empty parameters.
    let a = u16::from_be_bytes([b[0], b[1]]);
    let l = u16::from_be_bytes([b[2], b[3]]);
    if l != 0 {
        return None;
    }
    match a {
        1 => Some(PasswordAlgorithmValue::MD5),
        2 => Some(PasswordAlgorithmValue::SHA256),
        _ => None,
    }
}

#[kani::proof]
#[kani::unwind(6)]
fn c08_password_algorithm() {
    sym_raw!(12, t, val, len, i);
    let r = raw(t, &val[..len]);
    wrong_type!(PasswordAlgorithm, r, t, 0x001D);
    // exactly one algorithm entry with empty parameters: 4 bytes
    let want = if len == 4 { algo_ref(&val[..4]) } else { None };
    match PasswordAlgorithm::from_raw(&r) {
        Ok(v) => {
            assert!(len >= 4 && algo_ref(&val[..4]) == Some(v.algorithm()), "C08:password-algorithm-getter");
            assert!(want.is_some(), "C08:password-algorithm-accepts-only-4-byte-value");
            reencode_exact!(PasswordAlgorithm, v, val, len, 0x001D, i);
            assert!(PasswordAlgorithm::new(v.algorithm()) == v, "C08:password-algorithm-new-eq");
        }
        Err(_) => assert!(want.is_none(), "C08:password-algorithm-rejects-valid"),
    }
    kani::cover!(t == 0x001D && len == 4 && val[1] == 2 && want.is_some());
    kani::cover!(t == 0x001D && len == 8);
    kani::cover!(t == 0x001D && len == 4 && val[3] == 4);
}

#[kani::proof]
#[kani::unwind(6)]
fn c08_password_algorithms() {
    sym_raw!(12, t, val, len, i);
    let r = raw(t, &val[..len]);
    wrong_type!(PasswordAlgorithms, r, t, 0x8002);
    let n = len / 4;
    let e0 = if n >= 1 { algo_ref(&val[0..4]) } else { None };
    let e1 = if n >= 2 { algo_ref(&val[4..8]) } else { None };
    let e2 = if n >= 3 { algo_ref(&val[8..12]) } else { None };
    let valid = len % 4 == 0 && n >= 1 && e0.is_some() && (n < 2 || e1.is_some()) && (n < 3 || e2.is_some());
    match PasswordAlgorithms::from_raw(&r) {
        Ok(v) => {
            assert!(valid, "C08:password-algorithms-accepts-only-lists-of-empty-parameter-entries");
            let a = v.algorithms();
            assert!(a.len() == n, "C08:password-algorithms-getter");
            assert!(a[0] == e0.unwrap() && (n < 2 || a[1] == e1.unwrap()) && (n < 3 || a[2] == e2.unwrap()), "C08:password-algorithms-getter");
            reencode_exact!(PasswordAlgorithms, v, val, len, 0x8002, i);
        }
        Err(_) => assert!(!valid, "C08:password-algorithms-rejects-valid"),
    }
    kani::cover!(t == 0x8002 && len == 12 && valid);
    kani::cover!(t == 0x8002 && len == 6);
    kani::cover!(t == 0x8002 && len == 8 && !valid);
}

#[kani::proof]
#[kani::unwind(6)]
fn c08_password_algorithms_enc() {
    let k: [u8; 3] = kani::any();
    let n: usize = kani::any();
    kani::assume(n >= 1 && n <= 3);
    let i: usize = kani::any();
    let pick = |x: u8| if x & 1 == 0 { PasswordAlgorithmValue::MD5 } else { PasswordAlgorithmValue::SHA256 };
    let algos = [pick(k[0]), pick(k[1]), pick(k[2])];
    let v = PasswordAlgorithms::new(&algos[..n]);
    assert!(v.length() as usize == 4 * n, "C08:length-getter");
    let r = v.to_raw();
    assert!(r.get_type() == AttributeType::new(0x8002), "C08:type-code");
    assert!(r.value.len() == 4 * n && r.header.length() as usize == 4 * n, "C08:encode-length");
    let code = |x: u8| if x & 1 == 0 { 1u8 } else { 2u8 };
    let wire = [0, code(k[0]), 0, 0, 0, code(k[1]), 0, 0, 0, code(k[2]), 0, 0];
    assert!(same_bytes(&r.value, &wire[..4 * n], i), "C08:password-algorithms-wire-layout");
    assert!(PasswordAlgorithms::from_raw(&r).unwrap() == v, "C08:decode-encode-identity");
    let one = PasswordAlgorithm::new(pick(k[0]));
    let r1 = one.to_raw();
    assert!(r1.get_type() == AttributeType::new(0x001D) && one.length() == 4, "C08:type-code");
    assert!(r1.value.len() == 4 && same_bytes(&r1.value, &wire[..4], i), "C08:password-algorithm-wire-layout");
    assert!(PasswordAlgorithm::from_raw(&r1).unwrap() == one, "C08:decode-encode-identity");
    kani::cover!(n == 3 && k[0] & 1 == 1 && k[2] & 1 == 0);
}

// ---------------------------------------------------------------- length limits (content-free)

/// stands in for core::str::from_utf8 in the limit harnesses only: verdict nondeterministic
fn utf8_stub(v: &[u8]) -> Result<&str, std::str::Utf8Error> {
    if kani::any() {
        Ok(unsafe { std::str::from_utf8_unchecked(v) })
    } else {
        utf8_error()
    }
}

macro_rules! limit_decode {
    ($name:ident, $T:ty, $code:expr, $limit:expr) => {
        #[kani::proof]
        #[kani::unwind(4)]
        #[kani::stub(std::str::from_utf8, utf8_stub)]
        fn $name() {
            let val = [0x61u8; 800];
            let len: usize = kani::any();
            kani::assume(len <= 800);
            let r = raw($code, &val[..len]);
            match <$T>::from_raw(&r) {
                Ok(v) => {
                    assert!(len <= $limit, "C08:text-length-limit");
                    assert!(v.length() as usize == len, "C08:length-getter");
                }
                Err(StunParseError::TooLarge { expected, actual }) => {
                    assert!(len > $limit && expected == $limit && actual == len, "C08:text-length-limit");
                }
                Err(_) => {}
            }
            kani::cover!(len == $limit);
            kani::cover!(len == $limit + 1);
        }
    };
}
limit_decode!(c08_limit_username, Username, 0x0006, 513);
limit_decode!(c08_limit_realm, Realm, 0x0014, 763);
limit_decode!(c08_limit_nonce, Nonce, 0x0015, 763);
limit_decode!(c08_limit_software, Software, 0x8022, 763);

#[kani::proof]
#[kani::unwind(4)]
#[kani::stub(std::str::from_utf8, utf8_stub)]
fn c08_limit_error_code() {
    let mut val = [0x61u8; 800];
    val[0] = 0;
    val[1] = 0;
    val[2] = 4;
    val[3] = 20;
    let len: usize = kani::any();
    kani::assume(len <= 800);
    let r = raw(0x0009, &val[..len]);
    match ErrorCode::from_raw(&r) {
        Ok(v) => {
            assert!(len >= 4 && len <= 767, "C08:error-reason-length-limit");
            assert!(v.length() as usize == len && v.code() == 420, "C08:length-getter");
        }
        Err(StunParseError::TooLarge { .. }) => assert!(len > 767, "C08:error-reason-length-limit"),
        Err(StunParseError::Truncated { .. }) => assert!(len < 4, "C08:error-reason-length-limit"),
        Err(_) => {}
    }
    kani::cover!(len == 767);
    kani::cover!(len == 768);
    kani::cover!(len == 3);
}
