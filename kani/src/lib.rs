#![allow(dead_code, unused_imports, unused_variables, unused_macros, clippy::all)]
#[cfg(kani)]
mod util;
#[cfg(kani)]
mod c08;
#[cfg(kani)]
mod c13;
#[cfg(kani)]
mod c19;
