#!/bin/sh
cd "$(dirname "$0")/.."
run() { lib/seedrun.py --tier ${3:-quick} --only "$2" "$1" >> out/seedall.log 2>&1; }
run agent2-C20 configure
run agent2-C12 c12_software
run agent-C07 c07_send_step_sha256
run agent2-C15 handle_step
run agent-C18 c18_poll_one
run agent2-C09 verdict_32
run agent-C05 c05_poll_one
run agent2-C01 inspect_32
run agent-C02 iter_32
run agent-C10 tail_36_seal_first
echo DONE2 >> out/seedall.log
