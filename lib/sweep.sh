#!/bin/sh
# run the quick (or $1) tier of every property, one after the other; summary in out/sweep.txt
cd "$(dirname "$0")/.."
tier=${1:-quick}
shift
props=${*:-C19 C13 C16 C17 C09 C14 C08 C12 C07 C15 C20 C18 C05 C06 C02 C10 C03 C11 C04 C01}
: > out/sweep-$tier.txt
for p in $props; do
  s=$(date +%s)
  ./check $p --tier $tier > out/$p.$tier.run 2>&1
  rc=$?
  e=$(date +%s)
  echo "$p rc=$rc $((e-s))s $(grep -c '\[PASS\]' out/$p.$tier.run) pass $(grep -c '\[FAIL\]' out/$p.$tier.run) fail $(grep -c '^INCONCLUSIVE' out/$p.$tier.run) inconclusive" >> out/sweep-$tier.txt
done
echo DONE >> out/sweep-$tier.txt
