#![allow(dead_code, unused_imports, clippy::all)]
#[cfg(kani)]
mod c19;
