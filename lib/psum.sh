#!/bin/sh
# summary of probe logs
for f in "$@"; do echo "== $f"; grep -E "^(Runtime Symex|size of program|Runtime Solver|VERIFICATION|EXIT|WALL|Check [0-9]+:.*|.*Status: (FAILURE|UNSATISFIABLE|UNDETERMINED|ERROR))|Description: \"C[0-9]+:|unwinding assertion" $f | grep -B1 -A0 -E "FAILURE|UNSATIS|UNDET|ERROR|Runtime|size of|VERIF|EXIT|WALL" | grep -v "^--" | tail -${N:-25}; done
