//! One-step harnesses of the StunAgent from an arbitrary valid state (inductive step): one API
//! call against the reference model.  Each function is instantiated per property (const P) so
//! that a harness only asserts the tags of the property it is registered under.
use crate::agentworld::*;
use crate::util::*;
use std::net::SocketAddr;
use std::time::{Duration, Instant};
use stun_proto::agent::*;
use stun_types::attribute::*;
use stun_types::message::*;
use stun_types::prelude::*;
use stun_types::TransportType;

macro_rules! tag {
    ($P:expr, $p:expr, $cond:expr, $msg:expr) => {
        if $P == $p {
            assert!($cond, $msg);
        }
    };
}

fn outstanding(sn: &Snap, slot: usize) -> bool {
    sn.find(slot).is_some()
}

fn others_unchanged(sn: &Snap, w: &World, except: usize) -> bool {
    let mut ok = true;
    let mut j = 0;
    while j < NSLOT {
        if j != except {
            ok = ok && same_state(sn, j, &w.req[j]);
        }
        j += 1;
    }
    ok
}

fn same_data(tx: &Transmit, bytes: &[u8], i: usize) -> bool {
    same_bytes(tx.data(), bytes, i)
}

// ------------------------------------------------------------------ poll

pub fn poll_step<const P: u8>(cfg: &Cfg) {
    let w = World::any(cfg);
    let now = any_instant();
    let idx: usize = kani::any();
    let mut a = w.agent();
    let o = [ref_req_poll(&w.req[0], now), ref_req_poll(&w.req[1], now), ref_req_poll(&w.req[2], now)];
    let due = |i: usize| w.req[i].present && !matches!(o[i].0, Out::Wait(_));
    let any_due = due(0) || due(1) || due(2);
    let ret = a.poll(now);
    let agent_validated = [a.is_validated_peer(addr(1)), a.is_validated_peer(addr(2)), a.is_validated_peer(addr(3))];
    let sn = snap(&a);
    std::mem::forget(a);
    let a = &sn;
    match ret {
        StunAgentPollRet::SendData(tx) => {
            // some due transaction whose model outcome is a (re)transmission
            let mut hit = NSLOT;
            let mut i = 0;
            while i < NSLOT {
                if w.req[i].present && o[i].0 == Out::Send && same_state(a, i, &o[i].1) && others_unchanged(a, &w, i) && hit == NSLOT {
                    hit = i;
                }
                i += 1;
            }
            tag!(P, 5, hit < NSLOT, "C05:transmission-without-a-due-transaction-or-state-of-another-transaction-changed");
            tag!(P, 6, hit < NSLOT, "C06:retransmission-not-due-or-schedule-state-wrong");
            tag!(P, 20, hit < NSLOT, "C20:poll-result-not-a-function-of-state-and-now");
            if hit < NSLOT {
                tag!(P, 5, outstanding(a, hit), "C05:transaction-lost-by-retransmission");
                tag!(P, 18, same_data(&tx, &w.bytes[hit], idx), "C18:retransmission-bytes-differ-from-request");
                tag!(P, 18, tx.from == addr(0) && tx.to == addr(w.req[hit].to) && tx.transport == w.transport, "C18:retransmission-addressing");
                tag!(P, 18, a.find(hit).map(|v| v.to) == Some(addr(w.req[hit].to)), "C18:peer-address");
                tag!(P, 6, !w.req[hit].send_cancelled, "C06:transmission-after-cancel-retransmissions");
            }
        }
        StunAgentPollRet::TransactionTimedOut(t) => {
            match w.slot_of(t) {
                None => {
                    tag!(P, 5, false, "C05:timeout-for-unknown-transaction");
                    tag!(P, 6, false, "C06:timeout-for-unknown-transaction");
                }
                Some(i) => {
                    tag!(P, 5, o[i].0 == Out::TimedOut, "C05:timeout-for-transaction-that-is-not-timed-out");
                    tag!(P, 6, o[i].0 == Out::TimedOut, "C06:timeout-not-exactly-last-interval-after-final-transmission");
                    tag!(P, 5, !outstanding(a, i), "C05:timed-out-transaction-still-outstanding");
                    tag!(P, 5, others_unchanged(a, &w, i), "C05:timeout-changed-another-transaction");
                    tag!(P, 6, others_unchanged(a, &w, i), "C06:timeout-changed-another-schedule");
                }
            }
        }
        StunAgentPollRet::TransactionCancelled(t) => {
            match w.slot_of(t) {
                None => tag!(P, 5, false, "C05:cancelled-for-unknown-transaction"),
                Some(i) => {
                    tag!(P, 5, o[i].0 == Out::Cancelled, "C05:cancelled-for-transaction-that-is-not-cancelled");
                    tag!(P, 6, o[i].0 == Out::Cancelled, "C06:cancelled-before-next-due-instant");
                    tag!(P, 5, !outstanding(a, i), "C05:cancelled-transaction-still-outstanding");
                    tag!(P, 5, others_unchanged(a, &w, i), "C05:cancel-changed-another-transaction");
                }
            }
        }
        StunAgentPollRet::WaitUntil(t) => {
            tag!(P, 5, !any_due, "C05:wait-while-a-transaction-needs-service");
            tag!(P, 6, !any_due, "C06:wait-while-a-transaction-is-due");
            tag!(P, 5, others_unchanged(a, &w, NSLOT), "C05:waiting-poll-changed-a-transaction");
            tag!(P, 6, others_unchanged(a, &w, NSLOT), "C06:waiting-poll-changed-a-schedule");
            if !any_due && w.count() > 0 {
                // earliest instant at which any outstanding transaction needs service
                let mut min: Option<Instant> = None;
                let mut i = 0;
                while i < NSLOT {
                    if w.req[i].present {
                        if let Out::Wait(d) = o[i].0 {
                            if min.map_or(true, |m| d < m) {
                                min = Some(d);
                            }
                        }
                    }
                    i += 1;
                }
                tag!(P, 6, Some(t) == min, "C06:wait-until-is-not-the-earliest-due-instant");
                tag!(P, 6, t > now, "C06:wait-until-not-in-the-future");
                tag!(P, 20, Some(t) == min, "C20:reported-instant-not-derived-from-inputs");
            }
        }
    }
    // polling never validates (or forgets) a peer
    let mut x = 1u8;
    while x <= 3 {
        tag!(P, 15, agent_validated[x as usize - 1] == w.validated[x as usize - 1], "C15:poll-changed-the-validated-peer-set");
        x += 1;
    }
    kani::cover!(w.count() == cfg.max_present && any_due);
    kani::cover!(w.count() == cfg.max_present && !any_due);
}

/// How StunAgent::poll combines several outstanding requests, for all iteration orders of the
/// outstanding map: the per-request poll is replaced by its abstraction (outcome chosen freely per
/// request, see verif_poll_abstract in /repo), the loop, the earliest-wake-up computation, the
/// choice of the event and the removal bookkeeping are the real code.  Together with the
/// single-request harness (real per-request poll) this gives the multi-request claims of
/// C05/C06/C18/C20; the two-request harness over the real per-request poll does not finish (> 50 min).
pub fn agg_step<const P: u8>(cfg: &Cfg) {
    let w = World::any(cfg);
    let now = any_instant();
    let idx: usize = kani::any();
    let mut a = w.agent();
    let waits = |i: usize| !w.req[i].present || w.req[i].ti == 0;
    let any_due = !waits(0) || !waits(1) || !waits(2);
    let ret = a.poll(now);
    let sn = snap(&a);
    std::mem::forget(a);
    let a = &sn;
    match ret {
        StunAgentPollRet::SendData(tx) => {
            let mut hit = NSLOT;
            let mut i = 0;
            while i < NSLOT {
                let mut n = w.req[i];
                n.last = now;
                if w.req[i].present && w.req[i].ti == 1 && same_state(a, i, &n) && others_unchanged(a, &w, i) && tx.to == addr(w.req[i].to) && hit == NSLOT {
                    hit = i;
                }
                i += 1;
            }
            tag!(P, 5, hit < NSLOT, "C05:transmission-for-a-transaction-that-is-not-due-or-other-transaction-changed");
            tag!(P, 6, hit < NSLOT, "C06:transmission-for-a-transaction-that-is-not-due");
            tag!(P, 20, hit < NSLOT, "C20:poll-result-not-a-function-of-state-and-now");
            if hit < NSLOT {
                tag!(P, 5, outstanding(a, hit), "C05:transaction-lost-by-retransmission");
                tag!(P, 18, same_data(&tx, &w.bytes[hit], idx), "C18:retransmission-bytes-differ-from-request");
                tag!(P, 18, tx.from == addr(0) && tx.transport == w.transport, "C18:retransmission-addressing");
            }
        }
        StunAgentPollRet::TransactionTimedOut(t) => match w.slot_of(t) {
            None => tag!(P, 5, false, "C05:timeout-for-unknown-transaction"),
            Some(i) => {
                tag!(P, 5, w.req[i].ti == 2, "C05:timeout-reported-for-the-wrong-transaction");
                tag!(P, 6, w.req[i].ti == 2, "C06:timeout-reported-for-the-wrong-transaction");
                tag!(P, 5, !outstanding(a, i), "C05:timed-out-transaction-still-outstanding");
                tag!(P, 5, others_unchanged(a, &w, i), "C05:timeout-changed-another-transaction");
                tag!(P, 6, others_unchanged(a, &w, i), "C06:timeout-changed-another-schedule");
            }
        },
        StunAgentPollRet::TransactionCancelled(t) => match w.slot_of(t) {
            None => tag!(P, 5, false, "C05:cancelled-for-unknown-transaction"),
            Some(i) => {
                tag!(P, 5, w.req[i].ti == 3, "C05:cancelled-reported-for-the-wrong-transaction");
                tag!(P, 5, !outstanding(a, i), "C05:cancelled-transaction-still-outstanding");
                tag!(P, 5, others_unchanged(a, &w, i), "C05:cancel-changed-another-transaction");
            }
        },
        StunAgentPollRet::WaitUntil(t) => {
            tag!(P, 5, !any_due, "C05:wait-while-a-transaction-needs-service");
            tag!(P, 6, !any_due, "C06:wait-while-a-transaction-is-due");
            tag!(P, 5, others_unchanged(a, &w, NSLOT), "C05:waiting-poll-changed-a-transaction");
            if !any_due && w.count() > 0 {
                let mut min: Option<Instant> = None;
                let mut i = 0;
                while i < NSLOT {
                    if w.req[i].present && min.map_or(true, |m| w.req[i].last < m) {
                        min = Some(w.req[i].last);
                    }
                    i += 1;
                }
                tag!(P, 6, Some(t) == min, "C06:wait-until-is-not-the-earliest-due-instant");
                tag!(P, 20, Some(t) == min, "C20:reported-instant-not-derived-from-inputs");
            }
        }
    }
    kani::cover!(w.count() == cfg.max_present && any_due);
    kani::cover!(w.count() == cfg.max_present && !any_due);
    kani::cover!(w.count() == 1 && !any_due);
}

// ------------------------------------------------------------------ handle_stun

pub fn handle_step<const P: u8>(cfg: &Cfg) {
    let w = World::any(cfg);
    let class: u8 = kani::any();
    kani::assume(class < 4);
    let method: u16 = kani::any();
    kani::assume(method <= 0xfff);
    let k: u8 = kani::any();
    kani::assume(k >= 1 && k <= 4);
    let from: u8 = kani::any();
    kani::assume(from >= 1 && from <= 3);
    let mut a = w.agent();
    let hdr = header_msg(class, method, tid(k));
    let signed: Vec<u8>;
    let buf: &[u8] = if NATIVE && realize_mask() & 1 == 1 && class >= 2 {
        // native replay only: a response genuinely signed with the remote credentials
        let mut b = Message::builder(MessageType::from_class_method(class_of(class), method), tid(k));
        b.add_message_integrity(&World::creds(), IntegrityAlgorithm::Sha1).unwrap();
        signed = b.build();
        &signed
    } else {
        &hdr
    };
    let msg = Message::from_bytes(buf).unwrap();
    let native_verdict = if NATIVE { msg.validate_integrity(&World::creds()).is_ok() } else { false };
    let reply = a.handle_stun(msg, addr(from));
    let sn = snap(&a);
    let verdict_ok = if NATIVE { native_verdict } else { unsafe { VALIDATE_OK } };
    let slot = if class >= 2 { w.slot_of(tid(k)) } else { None };
    // model
    let delivered = match slot {
        None => false,
        Some(i) => !w.req[i].had_creds || (w.remote_creds && verdict_ok),
    };
    let accepted = class < 2 || delivered;
    match &reply {
        HandleStunReply::IncomingStun(m) => {
            tag!(P, 5, class < 2, "C05:response-handed-out-as-incoming");
            tag!(P, 15, class < 2, "C15:response-handed-out-as-incoming");
            tag!(P, 5, m.transaction_id() == tid(k), "C05:incoming-message-altered");
        }
        HandleStunReply::StunResponse(m) => {
            tag!(P, 5, class >= 2 && slot.is_some(), "C05:response-delivered-for-transaction-that-is-not-outstanding");
            tag!(P, 5, m.transaction_id() == tid(k), "C05:delivered-response-altered");
            tag!(P, 7, delivered, "C07:response-delivered-without-valid-integrity");
            tag!(P, 5, delivered, "C05:response-delivered-though-it-must-be-dropped");
        }
        HandleStunReply::Drop => {
            tag!(P, 5, class >= 2 && !delivered, "C05:message-dropped-though-it-must-be-delivered");
            tag!(P, 7, class >= 2 && !delivered, "C07:acceptable-response-dropped");
        }
    }
    // outstanding set and per-request state afterwards
    let mut i = 0;
    while i < NSLOT {
        let completes = delivered && slot == Some(i);
        if completes {
            tag!(P, 5, !outstanding(&sn, i), "C05:delivered-transaction-still-outstanding");
        } else {
            tag!(P, 5, outstanding(&sn, i) == w.req[i].present, "C05:handle-stun-changed-outstanding-set");
            tag!(P, 5, same_state(&sn, i, &w.req[i]), "C05:handle-stun-changed-another-transaction");
            tag!(P, 7, outstanding(&sn, i) == w.req[i].present, "C07:dropped-response-completed-or-cancelled-the-transaction");
            tag!(P, 7, same_state(&sn, i, &w.req[i]), "C07:dropped-response-changed-retransmission-timing");
        }
        i += 1;
    }
    tag!(P, 5, sn.count() <= w.count(), "C05:unknown-transaction-created");
    // validated peers: before, or (this address and the message was accepted)
    let mut x = 1u8;
    while x <= 3 {
        let want = w.validated[x as usize - 1] || (x == from && accepted);
        tag!(P, 15, a.is_validated_peer(addr(x)) == want, "C15:validated-peer-set-wrong-after-handle-stun");
        x += 1;
    }
    kani::cover!(delivered && w.req[slot.unwrap_or(0)].had_creds);
    kani::cover!(class >= 2 && slot.is_some() && !delivered);
    kani::cover!(class < 2);
    kani::cover!(class >= 2 && slot.is_none());
    std::mem::forget(a);
}

// ------------------------------------------------------------------ cancel / configure

pub fn cancel_step<const P: u8>(cfg: &Cfg) {
    let w = World::any(cfg);
    let k: u8 = kani::any();
    kani::assume(k >= 1 && k <= 4);
    let op: u8 = kani::any();
    kani::assume(op < 2);
    let mut a = w.agent();
    let slot = w.slot_of(tid(k));
    match a.mut_request_transaction(tid(k)) {
        None => tag!(P, 5, slot.is_none(), "C05:outstanding-transaction-not-found"),
        Some(mut r) => {
            tag!(P, 5, slot.is_some(), "C05:handle-for-transaction-that-is-not-outstanding");
            if let Some(i) = slot {
                tag!(P, 18, r.peer_address() == addr(w.req[i].to), "C18:peer-address");
            }
            if op == 0 {
                r.cancel();
            } else {
                r.cancel_retransmissions();
            }
        }
    }
    let sn = snap(&a);
    let mut i = 0;
    while i < NSLOT {
        let mut want = w.req[i];
        if slot == Some(i) {
            want.send_cancelled = true;
            if op == 0 {
                want.recv_cancelled = true;
            }
        }
        tag!(P, 5, same_state(&sn, i, &want), "C05:cancel-changed-more-than-the-flags-of-its-transaction");
        tag!(P, 6, same_state(&sn, i, &want), "C06:cancel-changed-a-schedule");
        i += 1;
    }
    let mut x = 1u8;
    while x <= 3 {
        tag!(P, 15, a.is_validated_peer(addr(x)) == w.validated[x as usize - 1], "C15:cancel-changed-the-validated-peer-set");
        x += 1;
    }
    kani::cover!(slot.is_some() && op == 0);
    kani::cover!(slot.is_none());
    std::mem::forget(a);
}

// ------------------------------------------------------------------ send

/// what a returned Transmit carried (the Transmit itself borrows the agent)
pub struct SentCopy {
    pub data: Vec<u8>,
    pub transport: TransportType,
    pub from: SocketAddr,
    pub to: SocketAddr,
}

/// replaces MessageIntegrity::compute in the send harnesses: any 20-byte MAC
pub fn mac_compute_stub(_data: &[u8], _key: &[u8]) -> Result<[u8; 20], StunWriteError> {
    Ok(kani::any())
}

/// replaces MessageIntegritySha256::compute in the send harnesses: any 32-byte MAC
pub fn mac256_compute_stub(_data: &[u8], _key: &[u8]) -> Result<[u8; 32], StunWriteError> {
    Ok(kani::any())
}

pub fn send_step<const P: u8, const INTEG: u8>(cfg: &Cfg) {
    let w = World::any(cfg);
    let class: u8 = kani::any();
    kani::assume(class < 4);
    let method: u16 = kani::any();
    kani::assume(method <= 0xfff);
    let k: u8 = kani::any();
    kani::assume(k >= 1 && k <= 4);
    let to: u8 = kani::any();
    kani::assume(to >= 1 && to <= 3);
    // INTEG (0 none, 1 SHA-1, 2 SHA-256) is a constant per instantiation: builder + sealing +
    // send in one query with everything symbolic needs > 37 GB (measured)
    let integ: u8 = INTEG;
    let with_mi = integ != 0;
    let val: [u8; 4] = kani::any();
    let idx: usize = kani::any();
    let now = any_instant();
    let mut a = w.agent();
    let dup = w.slot_of(tid(k)).is_some();
    // the map model holds 3 entries: a 4th concurrent transaction is outside the bound
    kani::assume(!(class == 0 && !dup && w.count() >= NSLOT));
    let mut b = Message::builder(MessageType::from_class_method(class_of(class), method), tid(k));
    if P == 18 {
        b.add_raw_attribute(RawAttribute::new(AttributeType::new(0x7f01), &val)).unwrap();
    }
    if integ == 1 {
        b.add_message_integrity(&World::creds(), IntegrityAlgorithm::Sha1).unwrap();
    } else if integ == 2 {
        b.add_message_integrity(&World::creds(), IntegrityAlgorithm::Sha256).unwrap();
    }
    let bytes = b.build();
    // the returned Transmit borrows the agent: copy out what is compared
    let res = a.send(b, addr(to), now).map(|tx| SentCopy { data: tx.data().to_vec(), transport: tx.transport, from: tx.from, to: tx.to });
    let is_req = class == 0;
    let sn = snap(&a);
    match &res {
        Err(e) => {
            tag!(P, 5, is_req && dup && matches!(e, StunError::AlreadyInProgress), "C05:send-refused-without-duplicate-id");
            tag!(P, 18, is_req && dup, "C18:send-refused-without-duplicate-id");
            tag!(P, 5, others_unchanged(&sn, &w, NSLOT), "C05:refused-send-changed-the-existing-transaction");
        }
        Ok(tx) => {
            tag!(P, 5, !(is_req && dup), "C05:duplicate-transaction-id-accepted");
            tag!(P, 18, same_bytes(&tx.data, &bytes, idx), "C18:transmitted-bytes-differ-from-message");
            tag!(P, 18, tx.from == addr(0) && tx.to == addr(to) && tx.transport == w.transport, "C18:transmission-addressing");
            tag!(P, 5, others_unchanged(&sn, &w, if is_req && k <= 3 { k as usize - 1 } else { NSLOT }), "C05:send-changed-another-transaction");
            if is_req && !dup {
                tag!(P, 5, sn.find(k as usize - 1).is_some(), "C05:sent-request-not-outstanding");
                tag!(P, 18, a.request_transaction(tid(k)).map(|r| r.peer_address()) == Some(addr(to)), "C18:peer-address");
                match sn.find(k as usize - 1) {
                    None => tag!(P, 5, false, "C05:sent-request-not-outstanding"),
                    Some(v) => {
                        tag!(P, 5, v.state_transaction_id == tid(k) && v.bytes_len == bytes.len(), "C05:sent-request-state");
                        tag!(P, 6, v.timeout_i == 0 && v.last_send_time == Some(now) && !v.send_cancelled && !v.recv_cancelled, "C06:initial-request-state");
                        tag!(P, 20, v.last_send_time == Some(now), "C20:send-instant-not-the-one-passed-in");
                        tag!(P, 7, v.request_had_credentials == with_mi, "C07:request-credentials-flag-wrong");
                        tag!(P, 18, v.to == addr(to) && v.from == addr(0) && v.transport == w.transport, "C18:stored-addressing");
                        if w.transport == TransportType::Udp {
                            tag!(P, 6, v.n_timeouts == 6 && v.last_retransmit_timeout_ms == 8000 && v.timeout0_ms == Some(500) && v.timeout1_ms == Some(1000), "C06:default-udp-schedule");
                            let want = [500u64, 1000, 2000, 4000, 8000, 16000];
                            let mut j = 2;
                            while j < 6 {
                                tag!(P, 6, a.verif_request_timeout_ms(tid(k), j) == Some(want[j]), "C06:default-udp-schedule");
                                j += 1;
                            }
                        } else {
                            tag!(P, 6, v.n_timeouts == 0 && v.last_retransmit_timeout_ms == 39500, "C06:default-tcp-schedule");
                        }
                    }
                }
            } else {
                // indications and responses leave no transaction behind
                tag!(P, 18, sn.count() == w.count(), "C18:non-request-left-a-transaction-behind");
                tag!(P, 5, sn.count() == w.count(), "C05:non-request-left-a-transaction-behind");
            }
        }
    }
    // sending never validates a peer
    let mut x = 1u8;
    while x <= 3 {
        tag!(P, 15, a.is_validated_peer(addr(x)) == w.validated[x as usize - 1], "C15:sending-changed-the-validated-peer-set");
        x += 1;
    }
    kani::cover!(res.is_ok() && is_req);
    kani::cover!(res.is_err());
    kani::cover!(res.is_ok() && !is_req);
    // the agent is not dropped: tearing down the map model trips a false allocation-size check in
    // Kani's dealloc model for the Vec<u64> created inside StunRequestState::new (not reproducible
    // natively) and dropping is not part of any property
    std::mem::forget(a);
}
