//! Shared helpers and independent reference models for the harnesses.
use stun_types::attribute::*;
use stun_types::message::*;

/// true when this source is compiled by plain rustc for a native counterexample replay
pub const NATIVE: bool = cfg!(verif_native);

pub fn class_of(c: u8) -> MessageClass {
    match c & 3 {
        0 => MessageClass::Request,
        1 => MessageClass::Indication,
        2 => MessageClass::Success,
        _ => MessageClass::Error,
    }
}

pub fn class_bits(c: MessageClass) -> u8 {
    match c {
        MessageClass::Request => 0,
        MessageClass::Indication => 1,
        MessageClass::Success => 2,
        MessageClass::Error => 3,
    }
}

/// RFC 8489 s5 interleaving written independently: bits M11..M7 C1 M6..M4 C0 M3..M0
pub fn rfc_type(c: u8, m: u16) -> u16 {
    let c0 = (c & 1) as u16;
    let c1 = ((c >> 1) & 1) as u16;
    (m & 0x000f) | (c0 << 4) | ((m & 0x0070) << 1) | (c1 << 8) | ((m & 0x0f80) << 2)
}

pub fn any_mtype() -> (u8, u16, MessageType) {
    let c: u8 = kani::any();
    kani::assume(c < 4);
    let m: u16 = kani::any();
    kani::assume(m <= 0xfff);
    (c, m, MessageType::from_class_method(class_of(c), m))
}

pub fn raw<'a>(t: u16, v: &'a [u8]) -> RawAttribute<'a> {
    RawAttribute::new(AttributeType::new(t), v)
}

pub fn pad4(n: usize) -> usize {
    (n + 3) & !3
}

/// RFC 3629 well-formedness, written from the table in section 4 (independent of core::str).
pub fn utf8_ref(b: &[u8]) -> bool {
    let mut i = 0;
    while i < b.len() {
        let c = b[i];
        let (n, lo, hi): (usize, u8, u8) = if c < 0x80 {
            (0, 0, 0)
        } else if c >= 0xC2 && c <= 0xDF {
            (1, 0x80, 0xBF)
        } else if c == 0xE0 {
            (2, 0xA0, 0xBF)
        } else if c == 0xED {
            (2, 0x80, 0x9F)
        } else if c >= 0xE1 && c <= 0xEF {
            (2, 0x80, 0xBF)
        } else if c == 0xF0 {
            (3, 0x90, 0xBF)
        } else if c >= 0xF1 && c <= 0xF3 {
            (3, 0x80, 0xBF)
        } else if c == 0xF4 {
            (3, 0x80, 0x8F)
        } else {
            return false;
        };
        if i + n >= b.len() && n > 0 {
            return false;
        }
        if n >= 1 && !(b[i + 1] >= lo && b[i + 1] <= hi) {
            return false;
        }
        if n >= 2 && !(b[i + 2] >= 0x80 && b[i + 2] <= 0xBF) {
            return false;
        }
        if n >= 3 && !(b[i + 3] >= 0x80 && b[i + 3] <= 0xBF) {
            return false;
        }
        i += n + 1;
    }
    true
}

/// a == b as byte strings, decided at the caller-supplied nondeterministic index `i` (a forall
/// over positions as one symbolic index, so no memcmp loop is unrolled).  Only meaningful in a
/// positive position (`assert!(same_bytes(..))`).  The index is drawn by the caller *before* the
/// code under test runs, so that native replays consume the counterexample values in the same
/// order even when stubs are not applied.  Natively the whole slices are compared.
pub fn same_bytes(a: &[u8], b: &[u8], i: usize) -> bool {
    if a.len() != b.len() {
        return false;
    }
    if NATIVE {
        return a == b;
    }
    if i < a.len() {
        a[i] == b[i]
    } else {
        true
    }
}

/// bitwise reflected CRC-32/ISO-HDLC (poly 0xEDB88320, init/xorout 0xffffffff)
pub fn crc32_ref(d: &[u8]) -> u32 {
    let mut crc: u32 = 0xffff_ffff;
    let mut i = 0;
    while i < d.len() {
        crc ^= d[i] as u32;
        let mut k = 0;
        while k < 8 {
            let mask = (!(crc & 1)).wrapping_add(1);
            crc = (crc >> 1) ^ (0xEDB8_8320 & mask);
            k += 1;
        }
        i += 1;
    }
    !crc
}

pub fn be16(b: &[u8], o: usize) -> usize {
    ((b[o] as usize) << 8) | b[o + 1] as usize
}

/// CRC the parser/builder must use for a FINGERPRINT at attribute offset `off`: the message up
/// to `off` with the length field rewritten to cover the attribute (RFC 8489 s14.7), using the
/// independent bitwise CRC.  Only used natively (replay) -- under Kani the recorder stub stands
/// in for the CRC.
pub fn native_fp_value(b: &[u8], off: usize) -> [u8; 4] {
    let mut v = b[..off].to_vec();
    let l = (off + 8 - 20) as u16;
    v[2] = (l >> 8) as u8;
    v[3] = l as u8;
    let c = crc32_ref(&v) ^ 0x5354_554e;
    c.to_be_bytes()
}

pub fn realize_mask() -> u32 {
    std::env::var("VERIF_REALIZE").ok().and_then(|s| s.parse().ok()).unwrap_or(0)
}

/// Native replay only: make the counterexample realisable with the real primitives.  The k-th
/// seal attribute (MESSAGE-INTEGRITY, MESSAGE-INTEGRITY-SHA256, FINGERPRINT in wire order) gets
/// its genuine value when bit k of `mask` is set -- the stubbed run decided the property for
/// every hash value, and a later seal covers an earlier one, so patching front to back keeps the
/// structure of the counterexample (DESIGN 2.4).
pub fn native_realize(b: &mut [u8], len: usize, key: &[u8], mask: u32) {
    if len < 20 {
        return;
    }
    let mut o = 20;
    let mut k = 0;
    while o + 4 <= len {
        let t = be16(b, o) as u16;
        let l = be16(b, o + 2);
        let padded = (l + 3) & !3;
        if o + 4 + padded > len {
            return;
        }
        if t == 0x8028 || t == 0x0008 || t == 0x001C {
            if (mask >> k) & 1 == 1 {
                if t == 0x8028 && l == 4 {
                    let v = native_fp_value(b, o);
                    b[o + 4..o + 8].copy_from_slice(&v);
                } else if t == 0x0008 && l == 20 {
                    let mut d = b[..o].to_vec();
                    let nl = (o + 24 - 20) as u16;
                    d[2] = (nl >> 8) as u8;
                    d[3] = nl as u8;
                    let h = stun_types::attribute::MessageIntegrity::compute(&d, key).unwrap();
                    b[o + 4..o + 24].copy_from_slice(&h);
                } else if t == 0x001C && l >= 16 && l <= 32 && l % 4 == 0 {
                    let mut d = b[..o].to_vec();
                    let nl = (o + 4 + l - 20) as u16;
                    d[2] = (nl >> 8) as u8;
                    d[3] = nl as u8;
                    let h = stun_types::attribute::MessageIntegritySha256::compute(&d, key).unwrap();
                    b[o + 4..o + 4 + l].copy_from_slice(&h[..l]);
                }
            }
            k += 1;
        }
        o += 4 + padded;
    }
}

/// replaces core::fmt::write (the engine behind format!/write!/panic messages): formats nothing.
/// Formatting is reached from panic paths of core (slice index failures, unwrap_failed) and from
/// Display/Debug impls; with symbolic operands CBMC unrolls the padding/number machinery for
/// minutes.  No property decided here depends on a formatted string (C01's Display/Debug half is
/// outside the claim, see DESIGN).
pub fn fmt_write_stub(_output: &mut dyn core::fmt::Write, _args: core::fmt::Arguments<'_>) -> core::fmt::Result {
    Ok(())
}

/// replaces core::result::unwrap_failed (the cold path of Result::unwrap/expect): panics without
/// formatting the error.  The real one is `panic!("{msg}: {error:?}")`; with an error whose fields
/// are symbolic (TooSmall { expected, actual }) CBMC executes the whole Debug machinery
/// (DebugStruct, PadAdapter, integer formatting) at every unwrap of the code under test.
pub fn unwrap_failed_stub(_msg: &str, _error: &dyn core::fmt::Debug) -> ! {
    panic!("called `Result::unwrap()` on an `Err` value")
}
