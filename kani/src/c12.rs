//! C12: all serialisation paths produce identical bytes (attribute level; the builder level is
//! in builder.rs).
use crate::util::*;
use std::net::{IpAddr, Ipv4Addr, Ipv6Addr, SocketAddr};
use stun_types::attribute::*;
use stun_types::message::*;
use stun_types::prelude::*;

const D: usize = 64;

/// `v.write_into(dest)` against `v.to_raw().to_bytes()` for a destination of any size 0..=D
/// pre-filled with arbitrary bytes.
fn writer_check<A: AttributeWrite>(v: &A, code: u16) {
    let orig: [u8; D] = kani::any();
    let dlen: usize = kani::any();
    kani::assume(dlen <= D);
    let i: usize = kani::any();
    let j: usize = kani::any();
    kani::assume(j < D);
    let mut dest = orig;
    let vlen = v.length() as usize;
    let plen = 4 + pad4(vlen);
    assert!(v.padded_len() == plen, "C12:padded-len");
    let raw = v.to_raw();
    let bytes = raw.to_bytes();
    assert!(bytes.len() == plen, "C12:to-bytes-is-padded-length");
    assert!(raw.get_type() == AttributeType::new(code) && v.get_type() == AttributeType::new(code), "C12:type-code");
    assert!(raw.value.len() == vlen && raw.header.length() as usize == vlen, "C12:declared-length-equals-value-length");
    assert!(be16(&bytes, 0) == code as usize && be16(&bytes, 2) == vlen, "C12:header-bytes");
    match v.write_into(&mut dest[..dlen]) {
        Ok(n) => {
            assert!(dlen >= plen, "C12:write-into-short-destination-accepted");
            assert!(n == plen, "C12:write-into-returns-padded-length");
            assert!(same_bytes(&dest[..plen], &bytes, i), "C12:write-into-differs-from-to-raw-to-bytes");
            if i >= 4 + vlen && i < plen {
                assert!(dest[i] == 0 && bytes[i] == 0, "C12:padding-not-zero");
            }
            if j >= plen {
                assert!(dest[j] == orig[j], "C12:write-into-touched-bytes-beyond-the-attribute");
            }
        }
        Err(StunWriteError::TooSmall { expected, actual }) => {
            assert!(dlen < plen, "C12:write-into-refused-sufficient-destination");
            assert!(expected == plen && actual == dlen, "C12:too-small-reports-required-and-available");
            assert!(dest[j] == orig[j], "C12:refused-write-modified-destination");
        }
        Err(_) => assert!(false, "C12:unexpected-write-error"),
    }
    // the raw attribute's own writer agrees as well
    let mut d2 = orig;
    if dlen >= plen {
        let n = raw.write_into(&mut d2[..dlen]).unwrap();
        assert!(n == plen && same_bytes(&d2[..plen], &bytes, i), "C12:raw-write-into-differs-from-to-bytes");
        if j >= plen {
            assert!(d2[j] == orig[j], "C12:write-into-touched-bytes-beyond-the-attribute");
        }
    } else {
        assert!(raw.write_into(&mut d2[..dlen]).is_err(), "C12:write-into-short-destination-accepted");
    }
    kani::cover!(dlen == plen);
    kani::cover!(dlen + 1 == plen);
    kani::cover!(dlen == D);
}

fn any_str6() -> ([u8; 6], usize) {
    let val: [u8; 6] = kani::any();
    let len: usize = kani::any();
    kani::assume(len <= 6);
    kani::assume(utf8_ref(&val[..len]));
    (val, len)
}

macro_rules! w {
    ($name:ident, $unw:expr, $code:expr, $mk:expr) => {
        #[kani::proof]
        #[kani::unwind($unw)]
        fn $name() {
            let v = $mk;
            writer_check(&v, $code);
        }
    };
}

w!(c12_username, 9, 0x0006, { let (b, n) = any_str6(); Username::new(unsafe { std::str::from_utf8_unchecked(&b[..n]) }).unwrap() });
w!(c12_realm, 9, 0x0014, { let (b, n) = any_str6(); Realm::new(unsafe { std::str::from_utf8_unchecked(&b[..n]) }).unwrap() });
w!(c12_nonce, 9, 0x0015, { let (b, n) = any_str6(); Nonce::new(unsafe { std::str::from_utf8_unchecked(&b[..n]) }).unwrap() });
w!(c12_software, 9, 0x8022, { let (b, n) = any_str6(); Software::new(unsafe { std::str::from_utf8_unchecked(&b[..n]) }).unwrap() });
w!(c12_alternate_domain, 9, 0x8003, { let (b, n) = any_str6(); AlternateDomain::new(unsafe { std::str::from_utf8_unchecked(&b[..n]) }) });
w!(c12_error_code, 9, 0x0009, {
    let (b, n) = any_str6();
    let class: u16 = kani::any();
    let num: u16 = kani::any();
    kani::assume(class >= 3 && class <= 6 && num <= 99);
    ErrorCode::new(class * 100 + num, unsafe { std::str::from_utf8_unchecked(&b[..n]) }).unwrap()
});
w!(c12_unknown_attributes, 6, 0x000A, {
    let a: [u16; 3] = kani::any();
    let n: usize = kani::any();
    kani::assume(n <= 3);
    let t = [AttributeType::new(a[0]), AttributeType::new(a[1]), AttributeType::new(a[2])];
    UnknownAttributes::new(&t[..n])
});
w!(c12_message_integrity, 6, 0x0008, MessageIntegrity::new(kani::any()));
w!(c12_message_integrity_sha256, 6, 0x001C, {
    let h: [u8; 32] = kani::any();
    let q: usize = kani::any();
    kani::assume(q >= 4 && q <= 8);
    MessageIntegritySha256::new(&h[..4 * q]).unwrap()
});
w!(c12_userhash, 6, 0x001E, Userhash::new(kani::any()));
w!(c12_fingerprint, 6, 0x8028, Fingerprint::new(kani::any()));
w!(c12_priority, 6, 0x0024, Priority::new(kani::any()));
w!(c12_use_candidate, 6, 0x0025, UseCandidate::new());
w!(c12_ice_controlled, 6, 0x8029, IceControlled::new(kani::any()));
w!(c12_ice_controlling, 6, 0x802A, IceControlling::new(kani::any()));
w!(c12_password_algorithm, 6, 0x001D, PasswordAlgorithm::new(if kani::any() { PasswordAlgorithmValue::MD5 } else { PasswordAlgorithmValue::SHA256 }));
w!(c12_password_algorithms, 6, 0x8002, {
    let k: [u8; 3] = kani::any();
    let n: usize = kani::any();
    kani::assume(n >= 1 && n <= 3);
    let pick = |x: u8| if x & 1 == 0 { PasswordAlgorithmValue::MD5 } else { PasswordAlgorithmValue::SHA256 };
    PasswordAlgorithms::new(&[pick(k[0]), pick(k[1]), pick(k[2])][..n])
});
fn any_sockaddr() -> SocketAddr {
    let p: u16 = kani::any();
    if kani::any() {
        let a: u32 = kani::any();
        SocketAddr::new(IpAddr::V4(Ipv4Addr::from(a)), p)
    } else {
        let a: u128 = kani::any();
        SocketAddr::new(IpAddr::V6(Ipv6Addr::from(a)), p)
    }
}
w!(c12_xor_mapped_address, 21, 0x0020, { let t: u128 = kani::any(); XorMappedAddress::new(any_sockaddr(), t.into()) });
w!(c12_alternate_server, 21, 0x8023, AlternateServer::new(any_sockaddr()));

/// raw attributes of any type with 0..=9 value bytes (every padding residue twice)
#[kani::proof]
#[kani::unwind(6)]
fn c12_raw_attribute() {
    let t: u16 = kani::any();
    let val: [u8; 9] = kani::any();
    let len: usize = kani::any();
    kani::assume(len <= 9);
    let r = RawAttribute::new(AttributeType::new(t), &val[..len]);
    let orig: [u8; 24] = kani::any();
    let dlen: usize = kani::any();
    kani::assume(dlen <= 24);
    let i: usize = kani::any();
    let j: usize = kani::any();
    kani::assume(j < 24);
    let mut dest = orig;
    let plen = 4 + pad4(len);
    let bytes = r.to_bytes();
    assert!(bytes.len() == plen && r.padded_len() == plen, "C12:to-bytes-is-padded-length");
    assert!(be16(&bytes, 0) == t as usize && be16(&bytes, 2) == len, "C12:header-bytes");
    if i >= 4 && i < 4 + len {
        assert!(bytes[i] == val[i - 4], "C12:value-bytes");
    }
    if i >= 4 + len && i < plen {
        assert!(bytes[i] == 0, "C12:padding-not-zero");
    }
    match r.write_into(&mut dest[..dlen]) {
        Ok(n) => {
            assert!(dlen >= plen && n == plen, "C12:write-into-returns-padded-length");
            assert!(same_bytes(&dest[..plen], &bytes, i), "C12:write-into-differs-from-to-raw-to-bytes");
            if j >= plen {
                assert!(dest[j] == orig[j], "C12:write-into-touched-bytes-beyond-the-attribute");
            }
        }
        Err(StunWriteError::TooSmall { expected, actual }) => {
            assert!(dlen < plen && expected == plen && actual == dlen, "C12:too-small-reports-required-and-available");
            assert!(dest[j] == orig[j], "C12:refused-write-modified-destination");
        }
        Err(_) => assert!(false, "C12:unexpected-write-error"),
    }
    // an owned copy serialises identically
    let o = r.clone().into_owned();
    assert!(same_bytes(&o.to_bytes(), &bytes, i), "C12:owned-copy-differs");
    kani::cover!(len == 9 && dlen == 16);
    kani::cover!(len == 5 && dlen == 11);
    kani::cover!(len == 0 && dlen == 4);
}
