//! Native replay of the Kani harnesses: the same source files, compiled by plain rustc with
//! `--cfg kani` (so the cfg(kani) hooks of /repo are on) against the *real* tracing crate and
//! the real hash back-ends; `kani::any()` yields the solver's counterexample values.
#![allow(dead_code, unused_imports, clippy::all)]
#[path = "../../kani/src/lib.rs"]
mod harness;
