//! C16: attribute policing returns exactly the RFC 8489 s6.3.1 verdict.
use crate::c02::crc_oracle;
use crate::refdec::*;
use crate::stubs::*;
use crate::util::*;
use stun_types::attribute::*;
use stun_types::message::*;
use stun_types::prelude::*;

#[kani::proof]
#[kani::unwind(4)]
fn c16_comprehension_required_all_types() {
    let t: u16 = kani::any();
    assert!(AttributeType::new(t).comprehension_required() == (t < 0x8000), "C16:comprehension-required-is-type-below-0x8000");
    kani::cover!(t == 0x7fff);
    kani::cover!(t == 0x8000);
}

/// verdict of check_attribute_types on a symbolic accepted REQUEST for symbolic supported /
/// required lists (<= 2 entries each) against the stand-alone oracle.  REC = true: the two
/// response constructors are recorder stubs (see stubs.rs), the verdict logic is the real code and
/// the list handed to `unknown_attributes` is compared entry by entry, in message order;
/// REC = false (thorough tier): everything real, the returned builder is inspected.
fn verdict<const N: usize, const REC: bool>() {
    prelude!(N, buf, len, probe, q, data, res, r);
    let sup: [u16; 2] = kani::any();
    let req: [u16; 2] = kani::any();
    let ns: usize = kani::any();
    let nr: usize = kani::any();
    kani::assume(ns <= 2 && nr <= 2);
    let supt = [AttributeType::new(sup[0]), AttributeType::new(sup[1])];
    let reqt = [AttributeType::new(req[0]), AttributeType::new(req[1])];
    if let Ok(msg) = &res {
        if r.verdict == Verdict::Accept && msg.class() == MessageClass::Request {
            // oracle: exposed comprehension-required types that are not supported, in message order
            let supported = |t: u16| (ns >= 1 && sup[0] == t) || (ns >= 2 && sup[1] == t);
            let present = |t: u16| {
                let mut p = false;
                let mut k = 0;
                while k < r.n {
                    if r.exposed[k] && r.typ[k] == t {
                        p = true;
                    }
                    k += 1;
                }
                p
            };
            let mut unknown = [0u16; 4];
            let mut nu = 0;
            let mut k = 0;
            while k < r.n {
                if r.exposed[k] && r.typ[k] < 0x8000 && !supported(r.typ[k]) && nu < 4 {
                    unknown[nu] = r.typ[k];
                    nu += 1;
                }
                k += 1;
            }
            let missing = (nr >= 1 && !present(req[0])) || (nr >= 2 && !present(req[1]));
            let out = Message::check_attribute_types(msg, &supt[..ns], &reqt[..nr]);
            match &out {
                None => {
                    assert!(nu == 0, "C16:unsupported-comprehension-required-attribute-not-reported");
                    assert!(!missing, "C16:missing-required-attribute-not-reported");
                }
                Some(b) => {
                    assert!(nu > 0 || missing, "C16:error-response-without-cause");
                    assert!(b.has_class(MessageClass::Error), "C16:error-response-class");
                    assert!(b.transaction_id() == msg.transaction_id(), "C16:error-response-transaction-id");
                    if REC && !NATIVE {
                        let p = unsafe { &POLICE };
                        // 420 takes precedence over 400; exactly one constructor call
                        assert!((p.ua_calls == 1) == (nu > 0) && p.ua_calls <= 1, "C16:420-iff-unsupported-comprehension-required-type");
                        assert!((p.br_calls == 1) == (nu == 0) && p.br_calls <= 1, "C16:400-iff-only-a-required-type-is-missing");
                        if nu > 0 {
                            assert!(p.ua_n == nu, "C16:unknown-attributes-list-is-not-exactly-the-unsupported-types");
                            let mut i = 0;
                            while i < nu {
                                assert!(p.ua[i] == unknown[i], "C16:unknown-attributes-list-order-or-content");
                                i += 1;
                            }
                        }
                    } else {
                        assert!(b.has_attribute(AttributeType::new(0x0009)), "C16:error-response-without-error-code");
                        // 420 carries UNKNOWN-ATTRIBUTES, 400 does not; 420 takes precedence
                        assert!(b.has_attribute(AttributeType::new(0x000A)) == (nu > 0), "C16:unknown-attributes-iff-420");
                        if NATIVE && nu > 0 {
                            // native replay of a counterexample found with the recorder stubs
                            let bytes = b.build();
                            let m = Message::from_bytes(&bytes).unwrap();
                            let ua = m.attribute::<UnknownAttributes>().unwrap();
                            let raw = ua.to_raw();
                            assert!(raw.value.len() == 2 * nu, "C16:unknown-attributes-list-is-not-exactly-the-unsupported-types");
                            let mut i = 0;
                            while i < nu {
                                assert!(be16(&raw.value, 2 * i) as u16 == unknown[i], "C16:unknown-attributes-list-order-or-content");
                                i += 1;
                            }
                        }
                    }
                }
            }
            kani::cover!(nu == 2 && out.is_some());
            kani::cover!(nu == 0 && missing && out.is_some());
            kani::cover!(out.is_none() && r.n == 2 && nr == 1);
            std::mem::forget(out);
        }
    }
}

// at most 2 attributes in 28 bytes, lists of at most 2 entries: the loops of the policing nest get
// bound 3 through --unwindset (registry)
#[kani::proof]
#[kani::unwind(5)]
#[kani::stub(stun_types::attribute::Fingerprint::compute, crc_stub)]
#[kani::stub(stun_types::message::Message::unknown_attributes, unknown_attributes_stub)]
#[kani::stub(stun_types::message::Message::bad_request, bad_request_stub)]
fn c16_verdict_rec_28() {
    verdict::<28, true>();
}

/// fixed layout [header, A (empty), B (empty)] of a request with symbolic method, id and
/// attribute types A, B (any type but the seals), symbolic supported (<= 2) and required (<= 1)
/// lists: verdict, 420-before-400, and the list handed to `unknown_attributes` in MESSAGE order.
/// No reference decoder and no symbolic lengths, so it is cheap enough for the quick tier.
#[kani::proof]
#[kani::unwind(4)]
#[kani::stub(stun_types::message::Message::unknown_attributes, unknown_attributes_stub)]
#[kani::stub(stun_types::message::Message::bad_request, bad_request_stub)]
fn c16_two_attrs_rec() {
    let m: u16 = kani::any();
    kani::assume(m <= 0xfff);
    let t: u128 = kani::any();
    let a: u16 = kani::any();
    let b: u16 = kani::any();
    kani::assume(a != T_MI && a != T_SHA && a != T_FP && b != T_MI && b != T_SHA && b != T_FP);
    let hdr = crate::agentworld::header_msg(0, m, t.into());
    let mut buf = [0u8; 28];
    buf[..20].copy_from_slice(&hdr);
    buf[3] = 8;
    buf[20] = (a >> 8) as u8;
    buf[21] = a as u8;
    buf[24] = (b >> 8) as u8;
    buf[25] = b as u8;
    let msg = Message::from_bytes(&buf).unwrap();
    let sup: [u16; 2] = kani::any();
    let req: u16 = kani::any();
    let ns: usize = kani::any();
    let nr: usize = kani::any();
    kani::assume(ns <= 2 && nr <= 1);
    let supt = [AttributeType::new(sup[0]), AttributeType::new(sup[1])];
    let reqt = [AttributeType::new(req)];
    let supported = |x: u16| (ns >= 1 && sup[0] == x) || (ns >= 2 && sup[1] == x);
    let mut unknown = [0u16; 2];
    let mut nu = 0;
    if a < 0x8000 && !supported(a) {
        unknown[nu] = a;
        nu += 1;
    }
    if b < 0x8000 && !supported(b) {
        unknown[nu] = b;
        nu += 1;
    }
    let missing = nr == 1 && req != a && req != b;
    let out = Message::check_attribute_types(&msg, &supt[..ns], &reqt[..nr]);
    match &out {
        None => {
            assert!(nu == 0, "C16:unsupported-comprehension-required-attribute-not-reported");
            assert!(!missing, "C16:missing-required-attribute-not-reported");
        }
        Some(bd) => {
            assert!(nu > 0 || missing, "C16:error-response-without-cause");
            assert!(bd.has_class(MessageClass::Error), "C16:error-response-class");
            if !NATIVE {
                // (with the recorder stubs the builder is the bare builder_error(request): 20 bytes)
                let hb = bd.build();
                let ty = rfc_type(3, m);
                assert!(hb[0] == (ty >> 8) as u8 && hb[1] == ty as u8, "C16:error-response-method");
            }
            assert!(bd.transaction_id() == msg.transaction_id(), "C16:error-response-transaction-id");
            if !NATIVE {
                let p = unsafe { &POLICE };
                assert!((p.ua_calls == 1) == (nu > 0) && p.ua_calls <= 1, "C16:420-iff-unsupported-comprehension-required-type");
                assert!((p.br_calls == 1) == (nu == 0) && p.br_calls <= 1, "C16:400-iff-only-a-required-type-is-missing");
                if nu > 0 {
                    assert!(p.ua_n == nu, "C16:unknown-attributes-list-is-not-exactly-the-unsupported-types");
                    assert!(p.ua[0] == unknown[0] && (nu < 2 || p.ua[1] == unknown[1]), "C16:unknown-attributes-list-order-or-content");
                }
            } else {
                let bytes = bd.build();
                let mm = Message::from_bytes(&bytes).unwrap();
                let code = mm.attribute::<ErrorCode>().unwrap().code();
                assert!(code == if nu > 0 { 420 } else { 400 }, "C16:420-iff-unsupported-comprehension-required-type");
                if nu > 0 {
                    let ua = mm.attribute::<UnknownAttributes>().unwrap();
                    let raw = ua.to_raw();
                    assert!(raw.value.len() == 2 * nu, "C16:unknown-attributes-list-is-not-exactly-the-unsupported-types");
                    assert!(be16(&raw.value, 0) as u16 == unknown[0] && (nu < 2 || be16(&raw.value, 2) as u16 == unknown[1]), "C16:unknown-attributes-list-order-or-content");
                }
            }
        }
    }
    kani::cover!(nu == 2 && a > b);
    kani::cover!(nu == 0 && missing);
    kani::cover!(out.is_none() && nr == 1);
    std::mem::forget(out);
}

#[kani::proof]
#[kani::unwind(5)]
#[kani::stub(stun_types::attribute::Fingerprint::compute, crc_stub)]
#[kani::stub(stun_types::message::Message::unknown_attributes, unknown_attributes_stub)]
#[kani::stub(stun_types::message::Message::bad_request, bad_request_stub)]
fn c16_verdict_rec_32() {
    verdict::<32, true>();
}

#[kani::proof]
#[kani::unwind(5)]
#[kani::stub(stun_types::attribute::Fingerprint::compute, crc_stub)]
fn c16_verdict() {
    verdict::<28, false>();
}

fn parse_back(bytes: &[u8], want_code: u16, method: u16, tid: TransactionId, unknown: &[u16]) {
    let m = match Message::from_bytes(bytes) {
        Ok(m) => m,
        Err(_) => {
            assert!(false, "C16:error-response-does-not-parse-back");
            return;
        }
    };
    assert!(m.class() == MessageClass::Error && m.method() == method && m.transaction_id() == tid, "C16:error-response-header");
    let ec = m.attribute::<ErrorCode>();
    assert!(matches!(&ec, Ok(e) if e.code() == want_code), "C16:error-code-value");
    if !unknown.is_empty() {
        let ua = m.attribute::<UnknownAttributes>().unwrap();
        let r = ua.to_raw();
        assert!(r.value.len() == 2 * unknown.len(), "C16:unknown-attributes-list-is-not-exactly-the-unsupported-types");
        let mut i = 0;
        while i < unknown.len() {
            assert!(be16(&r.value, 2 * i) as u16 == unknown[i], "C16:unknown-attributes-list-order-or-content");
            i += 1;
        }
    }
}

/// the generated 420 response, serialised and parsed back: method and id of the request (symbolic),
/// ERROR-CODE 420, UNKNOWN-ATTRIBUTES listing exactly the two unsupported types in message order
#[kani::proof]
#[kani::unwind(12)]
#[kani::stub(std::str::from_utf8, crate::c08::utf8_via_ref)]
fn c16_response_420_parses_back() {
    let m: u16 = kani::any();
    kani::assume(m <= 0xfff);
    let t: u128 = kani::any();
    let a: u16 = kani::any();
    let b: u16 = kani::any();
    kani::assume(a < 0x8000 && b < 0x8000 && a != b && a != 0x0008 && a != 0x001c && b != 0x0008 && b != 0x001c);
    let mut hdr = crate::agentworld::header_msg(0, m, t.into()).to_vec();
    hdr[3] = 8;
    hdr.extend_from_slice(&[(a >> 8) as u8, a as u8, 0, 0, (b >> 8) as u8, b as u8, 0, 0]);
    let msg = Message::from_bytes(&hdr).unwrap();
    let out = Message::check_attribute_types(&msg, &[], &[]).unwrap();
    let bytes = out.build();
    parse_back(&bytes, 420, m, t.into(), &[a, b]);
    std::mem::forget(out);
}

#[kani::proof]
#[kani::unwind(12)]
#[kani::stub(std::str::from_utf8, crate::c08::utf8_via_ref)]
fn c16_response_400_parses_back() {
    let m: u16 = kani::any();
    kani::assume(m <= 0xfff);
    let t: u128 = kani::any();
    let want: u16 = kani::any();
    let hdr = crate::agentworld::header_msg(0, m, t.into());
    let msg = Message::from_bytes(&hdr).unwrap();
    let out = Message::check_attribute_types(&msg, &[], &[AttributeType::new(want)]).unwrap();
    let bytes = out.build();
    parse_back(&bytes, 400, m, t.into(), &[]);
    std::mem::forget(out);
}

/// the two attributes every policing error response is made of, as encoded on the wire:
/// ERROR-CODE 420 / 400 (class and number bytes) and UNKNOWN-ATTRIBUTES listing the given types
/// in the given order
#[kani::proof]
#[kani::unwind(8)]
#[kani::stub(std::str::from_utf8, crate::c08::utf8_via_ref)]
fn c16_error_attributes_wire() {
    let a: u16 = kani::any();
    let b: u16 = kani::any();
    let e420 = ErrorCode::new(420, "Unknown Attributes").unwrap();
    let e400 = ErrorCode::new(400, "Bad Request").unwrap();
    let r = e420.to_raw();
    assert!(r.get_type() == AttributeType::new(0x0009) && r.value[2] == 4 && r.value[3] == 20, "C16:error-code-420-wire");
    let r = e400.to_raw();
    assert!(r.value[2] == 4 && r.value[3] == 0 && e400.code() == 400 && e420.code() == 420, "C16:error-code-400-wire");
    let u = UnknownAttributes::new(&[AttributeType::new(a), AttributeType::new(b)]);
    let r = u.to_raw();
    assert!(r.get_type() == AttributeType::new(0x000A) && r.value.len() == 4, "C16:unknown-attributes-wire");
    assert!(be16(&r.value, 0) as u16 == a && be16(&r.value, 2) as u16 == b, "C16:unknown-attributes-order");
    assert!(u.has_attribute(AttributeType::new(a)) && u.has_attribute(AttributeType::new(b)), "C16:unknown-attributes-membership");
}

/// quick tier: a FIXED request [header, PRIORITY(0x0024), USERNAME(0x0006), SOFTWARE(0x8022)] (empty
/// values; concrete bytes, so the attribute walk folds away) policed with EVERY supported list of
/// <= 2 types and every required list of <= 1 type: verdict, 420 before 400, and the list handed to
/// `unknown_attributes` in MESSAGE order (0x0024 before 0x0006: not ascending).  The same
/// assertions over symbolic requests are c16_two_attrs_rec / c16_verdict_rec_28 (22+ min: thorough).
#[kani::proof]
#[kani::unwind(5)]
#[kani::stub(stun_types::message::Message::unknown_attributes, unknown_attributes_stub)]
#[kani::stub(stun_types::message::Message::bad_request, bad_request_stub)]
fn c16_fixed_request_rec() {
    // a LITERAL buffer: Binding request, id 01..0c, PRIORITY, USERNAME, SOFTWARE with empty values
    // (bytes assembled at run time, even from constants, are not folded by CBMC and the attribute
    // walk inside the policing nest is then 2.9 M symex steps)
    let buf: [u8; 32] = [
        0x00, 0x01, 0x00, 0x0c, 0x21, 0x12, 0xa4, 0x42, 1, 2, 3, 4, 5, 6, 7, 8, 9, 10, 11, 12, 0x00, 0x24, 0, 0, 0x00, 0x06, 0, 0, 0x80, 0x22, 0, 0,
    ];
    let msg = Message::from_bytes(&buf).unwrap();
    let sup: [u16; 2] = kani::any();
    let req: u16 = kani::any();
    let ns: usize = kani::any();
    let nr: usize = kani::any();
    kani::assume(ns <= 2 && nr <= 1);
    let supt = [AttributeType::new(sup[0]), AttributeType::new(sup[1])];
    let reqt = [AttributeType::new(req)];
    let supported = |x: u16| (ns >= 1 && sup[0] == x) || (ns >= 2 && sup[1] == x);
    let mut unknown = [0u16; 2];
    let mut nu = 0;
    if !supported(0x0024) {
        unknown[nu] = 0x0024;
        nu += 1;
    }
    if !supported(0x0006) {
        unknown[nu] = 0x0006;
        nu += 1;
    }
    let missing = nr == 1 && req != 0x0024 && req != 0x0006 && req != 0x8022;
    let out = Message::check_attribute_types(&msg, &supt[..ns], &reqt[..nr]);
    match &out {
        None => {
            assert!(nu == 0, "C16:unsupported-comprehension-required-attribute-not-reported");
            assert!(!missing, "C16:missing-required-attribute-not-reported");
        }
        Some(bd) => {
            assert!(nu > 0 || missing, "C16:error-response-without-cause");
            assert!(bd.has_class(MessageClass::Error), "C16:error-response-class");
            assert!(bd.transaction_id() == msg.transaction_id(), "C16:error-response-transaction-id");
            if !NATIVE {
                let p = unsafe { &POLICE };
                assert!((p.ua_calls == 1) == (nu > 0) && p.ua_calls <= 1, "C16:420-iff-unsupported-comprehension-required-type");
                assert!((p.br_calls == 1) == (nu == 0) && p.br_calls <= 1, "C16:400-iff-only-a-required-type-is-missing");
                if nu > 0 {
                    assert!(p.ua_n == nu, "C16:unknown-attributes-list-is-not-exactly-the-unsupported-types");
                    assert!(p.ua[0] == unknown[0] && (nu < 2 || p.ua[1] == unknown[1]), "C16:unknown-attributes-list-order-or-content");
                }
            } else {
                let bytes = bd.build();
                let mm = Message::from_bytes(&bytes).unwrap();
                let code = mm.attribute::<ErrorCode>().unwrap().code();
                assert!(code == if nu > 0 { 420 } else { 400 }, "C16:420-iff-unsupported-comprehension-required-type");
                if nu > 0 {
                    let ua = mm.attribute::<UnknownAttributes>().unwrap();
                    let raw = ua.to_raw();
                    assert!(raw.value.len() == 2 * nu, "C16:unknown-attributes-list-is-not-exactly-the-unsupported-types");
                    assert!(be16(&raw.value, 0) as u16 == unknown[0] && (nu < 2 || be16(&raw.value, 2) as u16 == unknown[1]), "C16:unknown-attributes-list-order-or-content");
                }
            }
        }
    }
    kani::cover!(nu == 2);
    kani::cover!(nu == 0 && missing);
    kani::cover!(out.is_none() && nr == 1);
    std::mem::forget(out);
}
