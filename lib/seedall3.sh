#!/bin/sh
cd "$(dirname "$0")/.."
run() { lib/seedrun.py --tier ${3:-quick} --only "$2" "$1" >> out/seedall.log 2>&1; }
run agent-C05 c05_poll_one
run agent2-C15 c15_handle_step
run agent-C18 c18_poll_one
echo DONE3 >> out/seedall.log
