//! Native generators for Engine B (MIR -> SMT) counterexamples: each `site_<function>` test
//! builds a real input that drives the function to the arithmetic site with the root values of
//! the solver's model (VERIF_SMT_MODEL, JSON) and runs it in the dev profile (overflow checks on).
//! A panic = the model reproduces against the real code.
use stun_types::attribute::*;
use stun_types::message::*;
use stun_types::prelude::*;

fn model() -> Vec<(String, u64)> {
    // tiny JSON object parser: {"name": number, ...}
    let s = std::env::var("VERIF_SMT_MODEL").unwrap_or_else(|_| "{}".into());
    let mut out = vec![];
    for part in s.trim().trim_start_matches('{').trim_end_matches('}').split(',') {
        let mut kv = part.split(':');
        if let (Some(k), Some(v)) = (kv.next(), kv.next()) {
            if let Ok(n) = v.trim().parse::<u64>() {
                out.push((k.trim().trim_matches('"').to_string(), n));
            }
        }
    }
    out
}

fn get(m: &[(String, u64)], suffix: &str, default: u64) -> u64 {
    m.iter().find(|(k, _)| k.contains(suffix)).map(|(_, v)| *v).unwrap_or(default)
}

/// message = header, one filler attribute up to `data_offset`, then an integrity attribute
fn message_with_integrity_at(data_offset: usize, sha256_len: Option<usize>) -> Vec<u8> {
    assert!(data_offset % 4 == 0 && data_offset >= 20);
    let ilen = sha256_len.unwrap_or(20);
    let total = data_offset + 4 + ilen;
    let mut b = vec![0u8; total];
    b[2] = ((total - 20) >> 8) as u8;
    b[3] = (total - 20) as u8;
    b[4..8].copy_from_slice(&[0x21, 0x12, 0xa4, 0x42]);
    if data_offset > 20 {
        let l = data_offset - 24;
        b[20] = 0x7f;
        b[21] = 0x00;
        b[22] = (l >> 8) as u8;
        b[23] = l as u8;
    }
    b[data_offset] = 0x00;
    b[data_offset + 1] = if sha256_len.is_some() { 0x1c } else { 0x08 };
    b[data_offset + 2] = (ilen >> 8) as u8;
    b[data_offset + 3] = ilen as u8;
    b
}

#[test]
fn site_validate_integrity() {
    let m = model();
    let off = get(&m, "data_offset", 20) as usize;
    let creds: MessageIntegrityCredentials = ShortTermCredentials::new("pw".to_owned()).into();
    for sha in [None, Some((get(&m, "call_length", 32) as usize).clamp(16, 32) & !3)] {
        let b = message_with_integrity_at(off, sha);
        if b.len() > 65555 {
            continue;
        }
        let msg = Message::from_bytes(&b).expect("generator builds a well-formed message");
        let _ = msg.validate_integrity(&creds);
    }
}
