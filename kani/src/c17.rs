//! C17: a prefix of a message is reported as truncated with the length still needed; the
//! stand-alone header decoder agrees with the full parser.
use crate::c02::crc_oracle;
use crate::refdec::*;
use crate::stubs::*;
use crate::util::*;
use stun_types::attribute::*;
use stun_types::message::*;
use stun_types::prelude::*;

/// m = buf[..n] is well formed (judged by the reference decoder, which C02 shows equivalent to the
/// parser on the same bound); every strict prefix is reported as Truncated with exact counts.
fn prefix<const N: usize>() {
    let mut buf: [u8; N] = kani::any();
    let n: usize = kani::any();
    kani::assume(n <= N);
    let c: usize = kani::any();
    kani::assume(c < n);
    let crc_free: [u8; 4] = kani::any();
    if NATIVE {
        native_realize(&mut buf, n, &[], realize_mask());
    }
    let m = &buf[..n];
    let r = refdec(m, |off| crc_oracle(m, off, crc_free));
    kani::assume(!r.overflow && r.verdict == Verdict::Accept && r.excess == 0);
    match Message::from_bytes(&buf[..c]) {
        Ok(_) => assert!(false, "C17:strict-prefix-accepted"),
        Err(StunParseError::Truncated { expected, actual }) => {
            assert!(actual == c, "C17:available-size-is-prefix-length");
            assert!(expected > c && expected <= n, "C17:expected-size-between-prefix-and-message");
            if c < 20 {
                assert!(expected == 20, "C17:expected-20-for-short-header");
            } else {
                assert!(expected == n, "C17:expected-is-message-length");
            }
        }
        Err(_) => assert!(false, "C17:strict-prefix-not-reported-as-truncated"),
    }
    kani::cover!(c >= 20 && r.n >= 2);
    kani::cover!(c < 20 && c > 0);
    kani::cover!(c == n - 1 && r.fp_off.is_some());
}

#[kani::proof]
#[kani::unwind(5)]
#[kani::stub(stun_types::attribute::Fingerprint::compute, crc_stub)]
fn c17_prefix_32() {
    prefix::<32>();
}

#[kani::proof]
#[kani::unwind(8)]
#[kani::stub(stun_types::attribute::Fingerprint::compute, crc_stub)]
fn c17_prefix_44() {
    prefix::<44>();
}

/// the header decoder on every buffer of 0..=24 bytes
#[kani::proof]
#[kani::unwind(5)]
fn c17_header_decoder() {
    let buf: [u8; 24] = kani::any();
    let len: usize = kani::any();
    kani::assume(len <= 24);
    let d = &buf[..len];
    let stun = len >= 20 && d[0] & 0xc0 == 0 && d[4] == 0x21 && d[5] == 0x12 && d[6] == 0xa4 && d[7] == 0x42;
    match MessageHeader::from_bytes(d) {
        Ok(h) => {
            assert!(stun, "C17:header-decoder-accepts-only-stun-prefixes");
            assert!(h.data_length() as usize == be16(d, 2), "C17:header-declared-length");
            assert!(h.get_type() == MessageType::from_bytes(&d[..2]).unwrap(), "C17:header-type");
            let ty = be16(d, 0) as u16;
            let c = ((d[0] & 1) << 1) | ((d[1] >> 4) & 1);
            assert!(h.get_type().class() == class_of(c), "C17:header-type");
            assert!(h.get_type().method() == (ty & 0xf) | ((ty & 0xe0) >> 1) | ((ty & 0x3e00) >> 2), "C17:header-type");
            let mut idb = [0u8; 16];
            idb[4..].copy_from_slice(&d[8..20]);
            assert!(h.transaction_id() == TransactionId::from(u128::from_be_bytes(idb)), "C17:header-transaction-id");
        }
        Err(StunParseError::Truncated { expected, actual }) => {
            assert!(len < 20 && expected == 20 && actual == len, "C17:header-truncated-counts");
        }
        Err(StunParseError::NotStun) => assert!(len >= 20 && !stun, "C17:header-not-stun"),
        Err(_) => assert!(false, "C17:header-error-variant"),
    }
    kani::cover!(stun && len == 24);
    kani::cover!(len == 19);
    kani::cover!(len == 20 && !stun);
}

/// header decoder and full parser agree on the 20-byte prefix of whatever the parser accepts or
/// refuses: the parser says NotStun exactly when the header decoder does, and on acceptance both
/// report the same type, transaction id and declared length.
#[kani::proof]
#[kani::unwind(5)]
#[kani::stub(stun_types::attribute::Fingerprint::compute, crc_stub)]
fn c17_header_vs_parser() {
    let buf: [u8; 28] = kani::any();
    let len: usize = kani::any();
    kani::assume(len >= 20 && len <= 28);
    let d = &buf[..len];
    let h = MessageHeader::from_bytes(&d[..20]);
    let p = Message::from_bytes(d);
    assert!(matches!(h, Err(StunParseError::NotStun)) == matches!(p, Err(StunParseError::NotStun)), "C17:header-decoder-and-parser-agree-on-not-stun");
    if let (Ok(h), Ok(m)) = (&h, &p) {
        assert!(h.get_type() == m.get_type(), "C17:header-type-equals-parser-type");
        assert!(h.transaction_id() == m.transaction_id(), "C17:header-tid-equals-parser-tid");
        assert!(h.data_length() as usize + 20 <= len, "C17:header-length-equals-parser-length");
    }
    if p.is_ok() {
        assert!(h.is_ok(), "C17:parser-accepts-only-what-header-decoder-accepts");
    }
    kani::cover!(p.is_ok() && len == 28);
    kani::cover!(h.is_ok() && p.is_err());
}
