#!/bin/sh
# run every seeded change against the harness(es) of its property's QUICK check that can see it
# (--only keeps the run short; the full quick check contains these harnesses)
cd "$(dirname "$0")/.."
run() { lib/seedrun.py --tier ${3:-quick} --only "$2" "$1" >> out/seedall.log 2>&1; }
: > out/seedall.log
run agent2-C19 all_type_values
run agent2-C13 ipv4
run agent2-C17 header_decoder
run agent-C14 c14_n2_p1
run agent-C08 error_code_all_pairs
run agent2-C16 c16_
run agent2-C11 c11_
run agent-C05 poll_one
run agent-C06 c06_poll_one
run agent-C07 send_step_sha256
run agent-C18 poll_one
run agent2-C15 handle_step
run agent2-C20 configure
run agent2-C12 c12_software
run agent2-C09 verdict_32
run agent-C02 iter_32
run agent2-C03 iter_32
run agent2-C01 inspect_32
run agent-C10 tail_36
run agent2-C04 validate_record_44 thorough
echo DONE >> out/seedall.log
