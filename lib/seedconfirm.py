#!/usr/bin/env python3
"""Confirm a seeded change independently of the sub-agent that wrote it (scratch worktree of
/repo under /tmp, removed afterwards):
  1. the demonstration passes on the unchanged tree,
  2. the patch applies, the workspace still compiles and the existing test suite passes,
  3. the demonstration fails with the patch.
Writes seeded/<id>/meta.json = the agent's meta + {"confirmed": {...}}.

  lib/seedconfirm.py <seed-id>...
"""
import json
import os
import re
import shutil
import subprocess
import sys

ROOT = os.path.dirname(os.path.dirname(os.path.abspath(__file__)))
WT = "/tmp/seedconfirm-wt"
ENV = dict(os.environ, CARGO_NET_OFFLINE="true", CARGO_TARGET_DIR="/tmp/seedconfirm-target")


def sh(cmd, cwd=None, timeout=1800):
    p = subprocess.run(cmd, cwd=cwd, env=ENV, stdout=subprocess.PIPE, stderr=subprocess.STDOUT, text=True, timeout=timeout, shell=isinstance(cmd, str))
    return p.returncode, p.stdout


def summary(out):
    return " | ".join(re.findall(r"^test result: .*$", out, re.M))[:400]


def confirm(sid):
    d = os.path.join(ROOT, "seeded", sid)
    meta = json.load(open(os.path.join(d, "meta.agent.json")))
    crate = meta.get("crate_of_demo", "stun-types")
    name = "demo_" + re.sub(r"[^a-z0-9]", "_", sid.lower())
    sh(["git", "-C", "/repo", "worktree", "remove", "--force", WT])
    rc, out = sh(["git", "-C", "/repo", "worktree", "add", "--detach", WT, "HEAD"])
    if rc != 0:
        print(out)
        return False
    rec = {}
    try:
        tests = os.path.join(WT, crate, "tests")
        os.makedirs(tests, exist_ok=True)
        shutil.copy(os.path.join(d, "demo.rs"), os.path.join(tests, name + ".rs"))
        rc0, o0 = sh(["timeout", "600", "cargo", "test", "--offline", "-p", crate, "--test", name], cwd=WT)
        rec["demo_on_unchanged_tree"] = {"exit": rc0, "result": summary(o0)}
        rc, o = sh(["git", "-C", WT, "apply", os.path.join(d, "patch.diff")])
        rec["patch_applies"] = rc == 0
        rc1, o1 = sh(["timeout", "600", "cargo", "test", "--offline", "-p", crate, "--test", name], cwd=WT)
        rec["demo_with_patch"] = {"exit": rc1, "result": summary(o1) or o1[-300:]}
        shutil.rmtree(tests)
        rc2, o2 = sh(["timeout", "1200", "cargo", "test", "--workspace", "--no-fail-fast", "--offline"], cwd=WT)
        rec["existing_suite_with_patch"] = {"exit": rc2, "result": summary(o2)}
        rec["commands"] = ["git worktree add /tmp/seedconfirm-wt HEAD", "cargo test --offline -p %s --test %s  (unchanged tree)" % (crate, name),
                           "git apply patch.diff", "cargo test --offline -p %s --test %s  (with patch)" % (crate, name),
                           "cargo test --workspace --no-fail-fast --offline  (with patch, demo removed)"]
        rc, head = sh(["git", "-C", "/repo", "rev-parse", "--short", "HEAD"])
        rec["repo_head"] = head.strip()
        rec["ok"] = rc0 == 0 and rec["patch_applies"] and rc1 != 0 and rc2 == 0
    finally:
        sh(["git", "-C", "/repo", "worktree", "remove", "--force", WT])
    meta["breaks"] = meta.get("property")
    meta["confirmed"] = rec
    json.dump(meta, open(os.path.join(d, "meta.json"), "w"), indent=1)
    print(sid, "CONFIRMED" if rec.get("ok") else "NOT CONFIRMED", json.dumps({k: v for k, v in rec.items() if k != "commands"})[:600])
    return rec.get("ok", False)


if __name__ == "__main__":
    bad = 0
    for s in sys.argv[1:]:
        if not confirm(s):
            bad += 1
    shutil.rmtree("/tmp/seedconfirm-target", ignore_errors=True)
    sys.exit(1 if bad else 0)
