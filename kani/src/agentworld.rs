//! Shared world for the StunAgent harnesses (C05, C06, C07, C15, C18, C20): symbolic
//! pre-states installed through the cfg(kani) hooks of /repo, symbolic instants, and the
//! reference model `agent_ref` written from the property statements.
use crate::util::*;
use std::net::{IpAddr, Ipv4Addr, SocketAddr};
use std::time::{Duration, Instant};
use stun_proto::agent::*;
use stun_types::attribute::*;
use stun_types::message::*;
use stun_types::prelude::*;
use stun_types::TransportType;

pub const NSLOT: usize = 3;
pub const NT: usize = 2; // timeouts per pre-state request

pub fn addr(k: u8) -> SocketAddr {
    // 0 = local, 1..=3 = peers A, B, C
    SocketAddr::new(IpAddr::V4(Ipv4Addr::new(10, 0, 0, 1 + k)), 1000 + k as u16)
}

pub fn tid(k: u8) -> TransactionId {
    // distinct ids that also differ above bit 64
    TransactionId::from(((k as u128) << 70) | (0x1000 + k as u128))
}

#[repr(C)]
struct RawInstant {
    secs: i64,
    nanos: u32,
}

/// an arbitrary Instant with 0 <= secs < 2^40
pub fn any_instant() -> Instant {
    let secs: u64 = kani::any();
    let nanos: u32 = kani::any();
    kani::assume(secs < (1u64 << 40));
    kani::assume(nanos < 1_000_000_000);
    instant(secs, nanos)
}

pub fn instant(secs: u64, nanos: u32) -> Instant {
    assert!(std::mem::size_of::<Instant>() == std::mem::size_of::<RawInstant>());
    unsafe { std::mem::transmute::<RawInstant, Instant>(RawInstant { secs: secs as i64, nanos }) }
}

/// Timeout configuration of the pre-state requests.  The values are compile-time constants per
/// harness instantiation: Duration::from_millis on a symbolic u64 is a 64-bit division (twice per
/// request, in the implementation and in the model) and takes the agent harnesses past 29 GB
/// (measured); with constants the instants stay fully symbolic and the division folds away.
#[derive(Clone, Copy)]
pub struct Cfg {
    pub max_present: usize,
    pub ms: [u64; NT],
    pub last_ms: u64,
    /// request bytes symbolic (C18) or zero
    pub sym_bytes: bool,
    /// 0: every field of every request symbolic; 1: slots 1 and 2 are "plain" requests
    /// (nothing cancelled, fixed peer) with symbolic schedule position and instants; 2: all slots plain
    pub plain: u8,
    /// iteration order of the outstanding map: 0..=5 = that permutation (a constant, so the
    /// map model hands out concrete references), 6 = symbolic choice among all six.  A symbolic
    /// order makes every field access of the polled request a three-way pointer case split and the
    /// multi-request harnesses do not finish; the six orders are enumerated as six queries instead.
    pub order: u8,
}

pub const CFG_DEFAULT: Cfg = Cfg { max_present: 2, ms: [500, 1000], last_ms: 8000, sym_bytes: false, plain: 0, order: 6 };
pub const CFG_ZERO: Cfg = Cfg { max_present: 2, ms: [0, 1], last_ms: 0, sym_bytes: false, plain: 0, order: 6 };
pub const CFG_LONG: Cfg = Cfg { max_present: 2, ms: [39_500, 3_840_000], last_ms: 7_680_000, sym_bytes: false, plain: 0, order: 6 };
pub const CFG_BYTES: Cfg = Cfg { max_present: 2, ms: [500, 1000], last_ms: 8000, sym_bytes: true, plain: 0, order: 6 };
pub const CFG_AGG: Cfg = Cfg { max_present: 3, ms: [500, 1000], last_ms: 8000, sym_bytes: false, plain: 3, order: 6 };
pub const CFG_AGG_BYTES: Cfg = Cfg { max_present: 3, ms: [500, 1000], last_ms: 8000, sym_bytes: true, plain: 3, order: 6 };
pub const CFG_THREE: Cfg = Cfg { max_present: 3, ms: [500, 1000], last_ms: 8000, sym_bytes: false, plain: 0, order: 6 };

#[derive(Clone, Copy)]
pub struct Req {
    pub present: bool,
    pub to: u8,
    pub had_creds: bool,
    pub ms: [u64; NT],
    pub last_ms: u64,
    pub ti: usize,
    pub last: Instant,
    pub send_cancelled: bool,
    pub recv_cancelled: bool,
}

pub const MSG_LEN: usize = 24;

pub struct World {
    pub transport: TransportType,
    pub req: [Req; NSLOT],
    /// request bytes per slot (header + one empty attribute)
    pub bytes: [[u8; MSG_LEN]; NSLOT],
    pub validated: [bool; 3],
    /// 0: agent built without a remote address, 1..=3: built with remote_addr(addr(k))
    pub remote: u8,
    pub remote_creds: bool,
    pub order: [u8; 3],
}

fn absent_req() -> Req {
    Req { present: false, to: 1, had_creds: false, ms: [0; NT], last_ms: 0, ti: 0, last: instant(0, 0), send_cancelled: false, recv_cancelled: false }
}

fn any_req(cfg: &Cfg, slot: usize) -> Req {
    let ti: usize = kani::any();
    if cfg.plain == 3 {
        // aggregation harness: timeout_i encodes the abstract outcome (see verif_poll_abstract)
        kani::assume(ti <= 3);
        return Req { present: kani::any(), to: 1 + slot as u8, had_creds: false, ms: cfg.ms, last_ms: cfg.last_ms, ti, last: any_instant(), send_cancelled: false, recv_cancelled: false };
    }
    // timeout_i may exceed the number of timeouts: configure_timeout() can shorten the schedule of
    // a request that already retransmitted (R allows one step beyond)
    kani::assume(ti <= NT + 1);
    if cfg.plain == 2 || (cfg.plain == 1 && slot > 0) {
        return Req { present: kani::any(), to: 1 + slot as u8, had_creds: false, ms: cfg.ms, last_ms: cfg.last_ms, ti, last: any_instant(), send_cancelled: false, recv_cancelled: false };
    }
    let send_cancelled: bool = kani::any();
    let recv_cancelled: bool = kani::any();
    // representation invariant R: cancel() sets both flags
    kani::assume(!recv_cancelled || send_cancelled);
    let to: u8 = kani::any();
    kani::assume(to >= 1 && to <= 3);
    Req {
        present: kani::any(),
        to,
        had_creds: kani::any(),
        ms: cfg.ms,
        last_ms: cfg.last_ms,
        ti,
        last: any_instant(),
        send_cancelled,
        recv_cancelled,
    }
}

pub fn any_order(fixed: u8) -> [u8; 3] {
    let p: u8 = if fixed < 6 { fixed } else { kani::any() };
    kani::assume(p < 6);
    match p {
        0 => [0, 1, 2],
        1 => [0, 2, 1],
        2 => [1, 0, 2],
        3 => [1, 2, 0],
        4 => [2, 0, 1],
        _ => [2, 1, 0],
    }
}

impl World {
    /// an arbitrary state satisfying the representation invariant R, with at most
    /// `cfg.max_present` outstanding requests (the other slots are empty)
    pub fn any(cfg: &Cfg) -> World {
        let tcp: bool = kani::any();
        let r0 = any_req(cfg, 0);
        let r1 = if cfg.max_present >= 2 { any_req(cfg, 1) } else { absent_req() };
        let r2 = if cfg.max_present >= 3 { any_req(cfg, 2) } else { absent_req() };
        World {
            transport: if tcp { TransportType::Tcp } else { TransportType::Udp },
            req: [r0, r1, r2],
            bytes: if cfg.sym_bytes { kani::any() } else { [[0u8; MSG_LEN]; NSLOT] },
            validated: kani::any(),
            remote: {
                let r: u8 = kani::any();
                kani::assume(r <= 3);
                r
            },
            remote_creds: kani::any(),
            order: any_order(cfg.order),
        }
    }

    pub fn creds() -> MessageIntegrityCredentials {
        ShortTermCredentials::new(String::from("pw")).into()
    }

    /// build the real agent in this state through the cfg(kani) hooks
    pub fn agent(&self) -> StunAgent {
        let mut a = if self.remote == 0 {
            StunAgent::builder(self.transport, addr(0)).build()
        } else {
            StunAgent::builder(self.transport, addr(0)).remote_addr(addr(self.remote)).build()
        };
        if self.remote_creds {
            a.set_remote_credentials(World::creds());
        }
        let mut i = 0;
        while i < NSLOT {
            let r = &self.req[i];
            if r.present {
                a.verif_insert_request(
                    tid(i as u8 + 1),
                    self.bytes[i].to_vec(),
                    addr(r.to),
                    r.had_creds,
                    vec![r.ms[0], r.ms[1]],
                    r.last_ms,
                    r.ti,
                    Some(r.last),
                    r.send_cancelled,
                    r.recv_cancelled,
                );
            }
            i += 1;
        }
        let mut x = 0;
        while x < 3 {
            if self.validated[x] {
                a.verif_set_validated_peer(addr(x as u8 + 1));
            }
            x += 1;
        }
        a.verif_set_iteration_order(self.order);
        a
    }

    pub fn slot_of(&self, t: TransactionId) -> Option<usize> {
        let mut i = 0;
        while i < NSLOT {
            if self.req[i].present && tid(i as u8 + 1) == t {
                return Some(i);
            }
            i += 1;
        }
        None
    }

    pub fn count(&self) -> usize {
        let mut n = 0;
        let mut i = 0;
        while i < NSLOT {
            if self.req[i].present {
                n += 1;
            }
            i += 1;
        }
        n
    }
}

// ------------------------------------------------------------------ reference model

#[derive(Clone, Copy, PartialEq, Eq, Debug)]
pub enum Out {
    Wait(Instant),
    Send,
    TimedOut,
    Cancelled,
}

/// one request, one poll -- written from C06: the k-th retransmission is due timeouts[k-1]
/// after the previous transmission was handed out, the transaction times out `last` after the
/// final transmission, nothing is transmitted after cancel_retransmissions, a cancelled
/// transaction reports Cancelled.
pub fn ref_req_poll(r: &Req, now: Instant) -> (Out, Req) {
    let mut n = *r;
    if !r.present {
        return (Out::Wait(now), n);
    }
    if r.recv_cancelled {
        return (Out::Cancelled, n);
    }
    if r.ti >= NT {
        let due = r.last + Duration::from_millis(r.last_ms);
        if due > now {
            return (Out::Wait(due), n);
        }
        return (Out::TimedOut, n);
    }
    let due = r.last + Duration::from_millis(r.ms[r.ti]);
    if due > now {
        return (Out::Wait(due), n);
    }
    n.ti = r.ti + 1;
    if r.send_cancelled {
        return (Out::Cancelled, n);
    }
    n.last = now;
    (Out::Send, n)
}

/// scalar snapshot of the three slots of the outstanding-request model, read at constant
/// indices (a lookup by id per comparison costs a symbolic array index over whole request
/// structs; 50 of them made the multi-request harnesses intractable)
pub struct Snap {
    pub s: [Option<VerifRequest>; 3],
}

pub fn snap(a: &StunAgent) -> Snap {
    Snap { s: [a.verif_slot(0), a.verif_slot(1), a.verif_slot(2)] }
}

impl Snap {
    pub fn find(&self, slot: usize) -> Option<VerifRequest> {
        let t = tid(slot as u8 + 1);
        let mut out = None;
        let mut i = 0;
        while i < 3 {
            if let Some(v) = self.s[i] {
                if v.transaction_id == t {
                    out = Some(v);
                }
            }
            i += 1;
        }
        out
    }
    pub fn count(&self) -> usize {
        self.s.iter().filter(|x| x.is_some()).count()
    }
}

/// does the implementation's per-request state equal the model's?
pub fn same_state(sn: &Snap, slot: usize, r: &Req) -> bool {
    match sn.find(slot) {
        None => !r.present,
        Some(v) => {
            r.present
                && v.state_transaction_id == tid(slot as u8 + 1)
                && v.timeout_i == r.ti
                && v.last_send_time == Some(r.last)
                && v.send_cancelled == r.send_cancelled
                && v.recv_cancelled == r.recv_cancelled
                && v.n_timeouts == NT
                && v.last_retransmit_timeout_ms == r.last_ms
                && v.request_had_credentials == r.had_creds
                && v.timeout0_ms == Some(r.ms[0])
                && v.timeout1_ms == Some(r.ms[1])
                && v.to == addr(r.to)
                && v.from == addr(0)
                && v.bytes_len == MSG_LEN
        }
    }
}

/// A header-only message with the given class/method/transaction id (20 bytes).
pub fn header_msg(class: u8, method: u16, t: TransactionId) -> [u8; 20] {
    let ty = rfc_type(class, method);
    let id: u128 = t.into();
    let mut b = [0u8; 20];
    b[0] = (ty >> 8) as u8;
    b[1] = ty as u8;
    b[4] = 0x21;
    b[5] = 0x12;
    b[6] = 0xa4;
    b[7] = 0x42;
    let idb = id.to_be_bytes();
    b[8..20].copy_from_slice(&idb[4..16]);
    b
}

/// stands in for Message::validate_integrity in the agent harnesses: unconstrained verdict
/// (what the verdict should be is C04; the agent's reaction to it is decided here)
// (`where 'a: 'a` makes the lifetime early-bound, as Kani's stub signature check requires)
pub fn validate_stub<'a>(_m: &Message<'a>, _c: &MessageIntegrityCredentials) -> Result<IntegrityAlgorithm, StunParseError>
where
    'a: 'a,
{
    let ok: bool = kani::any();
    unsafe {
        VALIDATE_CALLS += 1;
        VALIDATE_OK = ok;
    }
    if ok {
        Ok(if kani::any() { IntegrityAlgorithm::Sha1 } else { IntegrityAlgorithm::Sha256 })
    } else {
        Err(StunParseError::IntegrityCheckFailed)
    }
}
pub static mut VALIDATE_CALLS: usize = 0;
pub static mut VALIDATE_OK: bool = false;
