use stun_types::message::*;

fn class_of(c: u8) -> MessageClass {
    match c & 3 {
        0 => MessageClass::Request,
        1 => MessageClass::Indication,
        2 => MessageClass::Success,
        _ => MessageClass::Error,
    }
}

/// RFC 8489 s5 interleaving written independently: bits M11..M7 C1 M6..M4 C0 M3..M0
fn rfc_type(c: u8, m: u16) -> u16 {
    let c0 = (c & 1) as u16;
    let c1 = ((c >> 1) & 1) as u16;
    (m & 0x000f) | (c0 << 4) | ((m & 0x0070) << 1) | (c1 << 8) | ((m & 0x0f80) << 2)
}

#[kani::proof]
#[kani::unwind(5)]
fn c19_class_method_roundtrip() {
    let c: u8 = kani::any();
    kani::assume(c < 4);
    let m: u16 = kani::any();
    kani::assume(m <= 0xfff);
    let t = MessageType::from_class_method(class_of(c), m);
    let mut b = [0u8; 2];
    t.write_into(&mut b);
    assert_eq!(u16::from_be_bytes(b), rfc_type(c, m));
    assert_eq!(t.class(), class_of(c));
    assert_eq!(t.method(), m);
    let back = MessageType::from_bytes(&b).unwrap();
    assert_eq!(back, t);
    kani::cover!(c == 3 && m == 0xfff);
}

#[kani::proof]
#[kani::unwind(5)]
fn c19_all_type_values() {
    let v: u16 = kani::any();
    let b = v.to_be_bytes();
    match MessageType::from_bytes(&b) {
        Err(StunParseError::NotStun) => assert!(v & 0xc000 != 0),
        Err(_) => panic!("unexpected error variant"),
        Ok(t) => {
            assert!(v & 0xc000 == 0);
            let c = t.class();
            let m = t.method();
            assert!(m <= 0xfff);
            // unique (class, method): re-encoding gives the same 14-bit value
            assert_eq!(MessageType::from_class_method(c, m), t);
            let ci = match c {
                MessageClass::Request => 0u8,
                MessageClass::Indication => 1,
                MessageClass::Success => 2,
                MessageClass::Error => 3,
            };
            assert_eq!(rfc_type(ci, m), v);
        }
    }
    kani::cover!(v == 0x3fff);
    kani::cover!(v == 0x8000);
}

#[kani::proof]
#[kani::unwind(5)]
fn c19_transaction_id_mask() {
    let x: u128 = kani::any();
    let t = TransactionId::from(x);
    let back: u128 = t.into();
    assert!(back == x & ((1u128 << 96) - 1), "C19:tid-keeps-low-96-bits");
    assert!(back >> 96 == 0, "C19:tid-fits-96-bits");
    // conversion is idempotent and equality is equality of the low 96 bits
    assert!(TransactionId::from(back) == t, "C19:tid-idempotent");
    let y: u128 = kani::any();
    assert!((TransactionId::from(y) == t) == ((y ^ x) << 32 == 0), "C19:tid-eq-is-low96-eq");
    kani::cover!(x >> 96 != 0);
}

/// A message with no attributes built by the real builder: type at 0..2, zero length, cookie at
/// 4..8, id at 8..20; header decoder and full parser read the same values back.
#[kani::proof]
#[kani::unwind(5)]
fn c19_header_layout() {
    let c: u8 = kani::any();
    kani::assume(c < 4);
    let m: u16 = kani::any();
    kani::assume(m <= 0xfff);
    let x: u128 = kani::any();
    let mt = MessageType::from_class_method(class_of(c), m);
    let b = Message::builder(mt, x.into());
    let mut buf = [0xa5u8; 24];
    let n = b.write_into(&mut buf).unwrap();
    assert!(n == 20, "C19:empty-message-is-20-bytes");
    assert!(u16::from_be_bytes([buf[0], buf[1]]) == rfc_type(c, m), "C19:type-at-0");
    assert!(buf[2] == 0 && buf[3] == 0, "C19:length-zero");
    assert!(buf[4..8] == [0x21, 0x12, 0xa4, 0x42], "C19:cookie-at-4");
    let low = x & ((1u128 << 96) - 1);
    let idb = low.to_be_bytes();
    let i: usize = kani::any();
    kani::assume(i < 12);
    assert!(buf[8 + i] == idb[4 + i], "C19:tid-at-8");
    assert!(buf[20] == 0xa5, "C19:nothing-written-past-len");
    let h = MessageHeader::from_bytes(&buf[..20]).unwrap();
    assert!(h.transaction_id() == TransactionId::from(x), "C19:header-reads-tid");
    assert!(h.get_type() == mt, "C19:header-reads-type");
    assert!(h.data_length() == 0, "C19:header-reads-len");
    let msg = Message::from_bytes(&buf[..20]).unwrap();
    assert!(msg.transaction_id() == TransactionId::from(x), "C19:message-reads-tid");
    assert!(msg.get_type() == mt, "C19:message-reads-type");
    assert!(msg.class() == class_of(c) && msg.method() == m, "C19:message-class-method");
    kani::cover!(x >> 96 != 0 && m == 0xabc);
}
