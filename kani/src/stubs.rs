//! Recorder stubs for the hash primitives (DESIGN 2.2).  Each one records what the code under
//! test handed to the primitive and returns an unconstrained value: the logic around the
//! primitive is decided for *every* possible hash value; which bytes were hashed is asserted from
//! the record.  Natively (replay) the stubs are not applied and the real primitives run.
use crate::util::*;
use stun_types::message::{StunParseError, StunWriteError};

pub struct CrcRec {
    pub calls: usize,
    pub len: usize,
    pub b2: u8,
    pub b3: u8,
    /// data[probe] for the pre-drawn probe index (if probe < len)
    pub probe: usize,
    pub probe_byte: u8,
    pub out: [u8; 4],
}

pub static mut CRC: CrcRec = CrcRec { calls: 0, len: 0, b2: 0, b3: 0, probe: 0, probe_byte: 0, out: [0; 4] };

/// replaces stun_types::attribute::Fingerprint::compute
pub fn crc_stub(data: &[u8]) -> [u8; 4] {
    unsafe {
        CRC.calls += 1;
        CRC.len = data.len();
        if data.len() >= 4 {
            CRC.b2 = data[2];
            CRC.b3 = data[3];
        }
        if CRC.probe < data.len() {
            CRC.probe_byte = data[CRC.probe];
        }
        let out: [u8; 4] = kani::any();
        CRC.out = out;
        out
    }
}

pub struct MacRec {
    pub calls: usize,
    pub sha256: bool,
    pub len: usize,
    pub b2: u8,
    pub b3: u8,
    pub probe: usize,
    pub probe_byte: u8,
    pub key_len: usize,
    pub key_probe: usize,
    pub key_probe_byte: u8,
    pub exp_len: usize,
    pub exp_probe: usize,
    pub exp_probe_byte: u8,
    pub ok: bool,
}

pub static mut MAC: MacRec = MacRec {
    calls: 0, sha256: false, len: 0, b2: 0, b3: 0, probe: 0, probe_byte: 0, key_len: 0, key_probe: 0,
    key_probe_byte: 0, exp_len: 0, exp_probe: 0, exp_probe_byte: 0, ok: false,
};

fn mac_record(sha256: bool, data: &[u8], key: &[u8], expected: &[u8]) -> bool {
    unsafe {
        MAC.calls += 1;
        MAC.sha256 = sha256;
        MAC.len = data.len();
        if data.len() >= 4 {
            MAC.b2 = data[2];
            MAC.b3 = data[3];
        }
        if MAC.probe < data.len() {
            MAC.probe_byte = data[MAC.probe];
        }
        MAC.key_len = key.len();
        if MAC.key_probe < key.len() {
            MAC.key_probe_byte = key[MAC.key_probe];
        }
        MAC.exp_len = expected.len();
        if MAC.exp_probe < expected.len() {
            MAC.exp_probe_byte = expected[MAC.exp_probe];
        }
        let ok: bool = kani::any();
        MAC.ok = ok;
        ok
    }
}

/// replaces MessageIntegrity::verify
pub fn verify_sha1_stub(data: &[u8], key: &[u8], expected: &[u8; 20]) -> Result<(), StunParseError> {
    if mac_record(false, data, key, &expected[..]) {
        Ok(())
    } else {
        Err(StunParseError::IntegrityCheckFailed)
    }
}

/// replaces MessageIntegritySha256::verify
pub fn verify_sha256_stub(data: &[u8], key: &[u8], expected: &[u8]) -> Result<(), StunParseError> {
    if mac_record(true, data, key, expected) {
        Ok(())
    } else {
        Err(StunParseError::IntegrityCheckFailed)
    }
}
