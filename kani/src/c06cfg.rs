//! C06, the configured schedule: `StunRequestMut::configure_timeout(initial_rto, retransmits,
//! last_retransmit_timeout)` must install exactly the table the statement describes -- the k-th
//! interval is initial_rto * 2^(k-1), there are exactly `retransmits` of them, the final wait is
//! last_retransmit_timeout; over TCP no retransmission and a final wait of the sum.  How `poll`
//! walks a table is decided by the poll_one harnesses (three tables, arbitrary position).
//!
//! `retransmits` is a constant per instantiation (the Vec is collected in a loop whose trip count
//! it is); initial_rto and last_retransmit_timeout are symbolic Durations of whole milliseconds
//! built as Duration::new(secs, millis * 1_000_000) (Duration::from_millis on a symbolic value
//! is a 64-bit division in the harness itself).
use crate::agentworld::*;
use std::time::Duration;
use stun_proto::agent::*;
use stun_types::TransportType;

fn any_ms_duration(max_s: u64) -> (Duration, u64) {
    let s: u64 = kani::any();
    let ms: u32 = kani::any();
    kani::assume(s <= max_s && ms < 1000);
    (Duration::new(s, ms * 1_000_000), s * 1000 + ms as u64)
}

fn configure<const N: u32, const TCP: bool>() {
    let (rto, rto_ms) = any_ms_duration(60);
    let (last, last_ms) = any_ms_duration(60);
    kani::assume(rto_ms >= 1 && rto_ms <= 60_000 && last_ms <= 60_000);
    let ti: usize = kani::any();
    kani::assume(ti <= NT + 1);
    let sent = any_instant();
    let send_cancelled: bool = kani::any();
    let mut a = StunAgent::builder(if TCP { TransportType::Tcp } else { TransportType::Udp }, addr(0)).build();
    // (the pre-state table is non-empty for TCP as well: replacing an EMPTY Vec<u64> trips a false allocation-size
    // check in Kani's dealloc model)
    a.verif_insert_request(tid(1), vec![0u8; MSG_LEN], addr(1), false, vec![500, 1000], 8000, ti, Some(sent), send_cancelled, false);
    a.verif_insert_request(tid(2), vec![0u8; MSG_LEN], addr(2), false, if TCP { vec![] } else { vec![500, 1000] }, 8000, 0, Some(sent), false, false);
    a.mut_request_transaction(tid(1)).unwrap().configure_timeout(rto, N, last);
    let st = a.verif_request_state(tid(1)).unwrap();
    if TCP {
        assert!(st.4 == 0, "C06:tcp-request-got-a-retransmission-schedule");
        // sum of the UDP intervals + the last timeout
        let sum = rto_ms * ((1u64 << N) - 1) + last_ms;
        assert!(st.5 == sum, "C06:tcp-timeout-is-not-the-sum-of-the-intervals");
    } else {
        assert!(st.4 == N as usize, "C06:number-of-retransmissions-differs-from-configuration");
        let mut k = 0usize;
        while k < N as usize {
            assert!(a.verif_request_timeout_ms(tid(1), k) == Some(rto_ms << k), "C06:configured-interval-is-not-initial-rto-doubled");
            k += 1;
        }
        assert!(st.5 == last_ms, "C06:configured-last-timeout-wrong");
    }
    // nothing else of the transaction, and nothing of the other transaction, is touched
    assert!(st.0 == ti && st.1 == Some(sent) && st.2 == send_cancelled && !st.3 && !st.6, "C06:configure-timeout-changed-more-than-the-schedule");
    let other = a.verif_request_state(tid(2)).unwrap();
    assert!(other.0 == 0 && other.1 == Some(sent) && other.4 == (if TCP { 0 } else { 2 }) && other.5 == 8000, "C06:configure-timeout-changed-another-transaction");
    kani::cover!(rto_ms == 60_000 && last_ms == 0);
    kani::cover!(rto_ms == 1);
    std::mem::forget(a);
}

macro_rules! cfgh {
    ($name:ident, $N:expr, $TCP:expr) => {
        #[kani::proof]
        #[kani::unwind(11)]
        fn $name() {
            configure::<$N, $TCP>();
        }
    };
}
cfgh!(c06_configure_udp_0, 0, false);
cfgh!(c06_configure_udp_1, 1, false);
cfgh!(c06_configure_udp_3, 3, false);
cfgh!(c06_configure_udp_7, 7, false);
cfgh!(c06_configure_udp_8, 8, false);
cfgh!(c06_configure_tcp_0, 0, true);
cfgh!(c06_configure_tcp_3, 3, true);
cfgh!(c06_configure_tcp_8, 8, true);
