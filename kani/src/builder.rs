//! Builder harnesses: C03 (round trip), C11 (ordering rules, refused operations leave no
//! trace), C12 (builder serialisation paths), C16 is in c16.rs.  Hash primitives are memoising
//! stubs (uninterpreted functions), so results hold for any MAC/CRC values.
use crate::stubs::*;
use crate::util::*;
use stun_types::attribute::*;
use stun_types::message::*;
use stun_types::prelude::*;

pub const S_MI: u8 = 1;
pub const S_SHA: u8 = 2;
pub const S_FP: u8 = 4;

fn creds() -> MessageIntegrityCredentials {
    ShortTermCredentials::new(String::from("pw")).into()
}

fn seal_len(seals: u8) -> usize {
    (if seals & S_MI != 0 { 24 } else { 0 }) + (if seals & S_SHA != 0 { 36 } else { 0 }) + (if seals & S_FP != 0 { 8 } else { 0 })
}

/// Message with one raw attribute of L value bytes (symbolic type and content) and the seals in
/// SEALS, built, serialised through every path, parsed back.  P selects the property whose
/// assertions are active.
pub fn roundtrip<const L: usize, const SEALS: u8, const P: u8>() {
    let (c, m, mt) = any_mtype();
    let t: u128 = kani::any();
    let at: u16 = kani::any();
    kani::assume(at != 0x0008 && at != 0x001C && at != 0x8028);
    let val: [u8; L] = kani::any();
    let i: usize = kani::any();
    let j: usize = kani::any();
    let fill: u8 = kani::any();
    let mut b = Message::builder(mt, t.into());
    if b.add_raw_attribute(RawAttribute::new(AttributeType::new(at), &val)).is_err() {
        // (no unwrap: with a symbolic attribute type the Err arm is feasible for CBMC and unwrap_failed drags
        // the whole Debug formatting machinery into the query -- 30+ minutes)
        assert!(false, "C11:builder-refused-an-operation-the-ordering-rules-allow");
        return;
    }
    let cr = creds();
    if SEALS & S_MI != 0 {
        if b.add_message_integrity(&cr, IntegrityAlgorithm::Sha1).is_err() {
            // (no unwrap: with a symbolic attribute type the Err arm is feasible for CBMC and unwrap_failed drags
            // the whole Debug formatting machinery into the query -- 30+ minutes)
            assert!(false, "C11:builder-refused-an-operation-the-ordering-rules-allow");
            return;
        }
    }
    if SEALS & S_SHA != 0 {
        if b.add_message_integrity(&cr, IntegrityAlgorithm::Sha256).is_err() {
            // (no unwrap: with a symbolic attribute type the Err arm is feasible for CBMC and unwrap_failed drags
            // the whole Debug formatting machinery into the query -- 30+ minutes)
            assert!(false, "C11:builder-refused-an-operation-the-ordering-rules-allow");
            return;
        }
    }
    if SEALS & S_FP != 0 {
        if b.add_fingerprint().is_err() {
            // (no unwrap: with a symbolic attribute type the Err arm is feasible for CBMC and unwrap_failed drags
            // the whole Debug formatting machinery into the query -- 30+ minutes)
            assert!(false, "C11:builder-refused-an-operation-the-ordering-rules-allow");
            return;
        }
    }
    let want_len = 20 + 4 + pad4(L) + seal_len(SEALS);
    let bytes = b.build();
    if P == 3 || P == 12 {
        assert!(bytes.len() == want_len, "C03:serialised-length");
        assert!(bytes.len() % 4 == 0, "C03:length-not-multiple-of-four");
        assert!(b.byte_len() == bytes.len(), "C03:byte-len-differs-from-serialisation");
        assert!(be16(&bytes, 2) == bytes.len() - 20, "C03:header-length-field");
    }
    if P == 12 {
        // every serialisation path gives the same bytes
        let mut exact = vec![fill; want_len];
        assert!(b.write_into(&mut exact).unwrap() == want_len, "C12:write-into-returns-length");
        assert!(same_bytes(&exact, &bytes, i), "C12:write-into-exact-differs-from-build");
        let mut larger = vec![fill; want_len + 16];
        assert!(b.write_into(&mut larger).unwrap() == want_len, "C12:write-into-returns-length");
        assert!(same_bytes(&larger[..want_len], &bytes, i), "C12:write-into-larger-differs-from-build");
        if j >= want_len && j < want_len + 16 {
            assert!(larger[j] == fill, "C12:write-into-touched-bytes-beyond-the-message");
        }
        let short: usize = kani::any();
        kani::assume(short < want_len);
        let mut small = vec![fill; want_len];
        match b.write_into(&mut small[..short]) {
            Err(StunWriteError::TooSmall { expected, actual }) => {
                assert!(expected == want_len && actual == short, "C12:too-small-reports-required-and-available");
            }
            _ => assert!(false, "C12:write-into-short-destination-accepted"),
        }
        if j < want_len {
            assert!(small[j] == fill, "C12:refused-write-modified-destination");
        }
        let cl = b.clone();
        assert!(same_bytes(&cl.build(), &bytes, i), "C12:clone-serialises-differently");
        let ow = b.into_owned();
        assert!(same_bytes(&ow.build(), &bytes, i), "C12:into-owned-serialises-differently");
        assert!(ow.byte_len() == want_len, "C12:into-owned-serialises-differently");
        return;
    }
    // parse back
    let msg = match Message::from_bytes(&bytes) {
        Ok(m) => m,
        Err(_) => {
            assert!(false, "C03:built-message-refused-by-the-parser");
            return;
        }
    };
    assert!(msg.class() == class_of(c) && msg.method() == m, "C03:class-or-method-changed");
    assert!(msg.transaction_id() == TransactionId::from(t), "C03:transaction-id-changed");
    let mut it = msg.iter_attributes();
    match it.next() {
        Some(a) => {
            assert!(a.get_type().value() == at && a.value.len() == L, "C03:attribute-changed");
            assert!(same_bytes(&a.value, &val, i), "C03:attribute-value-changed");
        }
        None => assert!(false, "C03:attribute-lost"),
    }
    if SEALS & S_MI != 0 {
        match it.next() {
            Some(a) => {
                assert!(a.get_type().value() == 0x0008 && a.value.len() == 20, "C03:message-integrity-not-read-back");
                let o = unsafe { M_SHA1.out };
                assert!(same_bytes(&a.value, &o[..20], i), "C03:message-integrity-value-changed");
                assert!(MessageIntegrity::from_raw(&a).is_ok(), "C03:message-integrity-not-read-back");
            }
            None => assert!(false, "C03:message-integrity-not-read-back"),
        }
    }
    if SEALS & S_SHA != 0 {
        match it.next() {
            Some(a) => {
                assert!(a.get_type().value() == 0x001C && a.value.len() == 32, "C03:message-integrity-sha256-not-read-back");
                assert!(MessageIntegritySha256::from_raw(&a).is_ok(), "C03:message-integrity-sha256-not-read-back");
            }
            None => assert!(false, "C03:message-integrity-sha256-not-read-back"),
        }
    }
    if SEALS & S_FP != 0 {
        match it.next() {
            Some(a) => {
                assert!(a.get_type().value() == 0x8028 && a.value.len() == 4, "C03:fingerprint-not-read-back");
                assert!(Fingerprint::from_raw(&a).is_ok(), "C03:fingerprint-not-read-back");
            }
            None => assert!(false, "C03:fingerprint-not-read-back"),
        }
    }
    assert!(it.next().is_none(), "C03:extra-attribute-read-back");
    if P == 11 {
        // the serialised message carries valid integrity and the builder's queries agree with it
        if SEALS & (S_MI | S_SHA) != 0 {
            assert!(msg.validate_integrity(&cr).is_ok(), "C11:built-message-fails-integrity-validation");
        }
        let q: u16 = kani::any();
        let have = q == at || (q == 0x0008 && SEALS & S_MI != 0) || (q == 0x001C && SEALS & S_SHA != 0) || (q == 0x8028 && SEALS & S_FP != 0);
        assert!(b.has_attribute(AttributeType::new(q)) == have, "C11:builder-query-disagrees-with-serialisation");
    }
    kani::cover!(c == 2 && m == 0x123);
}

macro_rules! rt {
    ($name:ident, $L:expr, $S:expr, $P:expr, $unw:expr) => {
        #[kani::proof]
        #[kani::unwind($unw)]
        #[kani::stub(stun_types::attribute::Fingerprint::compute, crc_memo_stub)]
        #[kani::stub(stun_types::attribute::MessageIntegrity::compute, sha1_compute_memo_stub)]
        #[kani::stub(stun_types::attribute::MessageIntegritySha256::compute, sha256_compute_memo_stub)]
        #[kani::stub(stun_types::attribute::MessageIntegrity::verify, sha1_verify_memo_stub)]
        #[kani::stub(stun_types::attribute::MessageIntegritySha256::verify, sha256_verify_memo_stub)]
        fn $name() {
            roundtrip::<$L, $S, $P>();
        }
    };
}

rt!(c03_rt_l1_none, 1, 0, 3, 6);
rt!(c03_rt_l4_fp, 4, 4, 3, 6);
rt!(c03_rt_l2_mi, 2, 1, 3, 6);
rt!(c03_rt_l3_sha, 3, 2, 3, 6);
rt!(c03_rt_l0_mi_fp, 0, 5, 3, 6);
rt!(c03_rt_l1_mi_sha, 1, 3, 3, 6);
rt!(c03_rt_l5_sha_fp, 5, 6, 3, 6);
rt!(c03_rt_l1_mi_sha_fp, 1, 7, 3, 6);
rt!(c12_paths_l1_none, 1, 0, 12, 6);
rt!(c12_paths_l3_fp, 3, 4, 12, 6);
rt!(c12_paths_l2_mi_fp, 2, 5, 12, 6);
rt!(c11_final_l1_mi_sha_fp, 1, 7, 11, 6);
rt!(c11_final_l2_sha, 2, 2, 11, 6);

// ------------------------------------------------------------------ C11: ordering rules

/// A sequence of up to four builder operations given as decimal digits of OPS (most significant
/// first): 1 add raw X (0x7f01), 2 add raw Y (0x7f02), 3 add typed SOFTWARE, 4 SHA-1 integrity,
/// 5 SHA-256 integrity, 6 fingerprint, 7 into_owned, 8 clone-and-continue.  After every
/// operation the outcome is compared with the statement's rule; a refused operation must leave
/// byte_len(), has_attribute(q) for symbolic q and the serialisation unchanged.
pub fn ordering<const OPS: u32>() {
    let (c, m, mt) = any_mtype();
    let t: u128 = kani::any();
    let q: u16 = kani::any();
    let i: usize = kani::any();
    let vx: [u8; 2] = kani::any();
    let vy: [u8; 3] = kani::any();
    let sw = Software::new("ab").unwrap();
    let cr = creds();
    let mut b = Message::builder(mt, t.into());
    // model state
    let (mut hx, mut hy, mut hs, mut hmi, mut hsha, mut hfp) = (false, false, false, false, false, false);
    let digits = [(OPS / 1000) % 10, (OPS / 100) % 10, (OPS / 10) % 10, OPS % 10];
    let mut k = 0;
    while k < 4 {
        let op = digits[k];
        k += 1;
        if op == 0 {
            continue;
        }
        let before_len = b.byte_len();
        let before_has = b.has_attribute(AttributeType::new(q));
        let before = b.build();
        let sealed = hmi || hsha || hfp;
        let (refused_want, res): (bool, Result<(), StunWriteError>) = match op {
            1 => (hx || sealed, b.add_raw_attribute(RawAttribute::new(AttributeType::new(0x7f01), &vx))),
            2 => (hy || sealed, b.add_raw_attribute(RawAttribute::new(AttributeType::new(0x7f02), &vy))),
            3 => (hs || sealed, b.add_attribute(&sw)),
            4 => (hmi || hsha || hfp, b.add_message_integrity(&cr, IntegrityAlgorithm::Sha1)),
            5 => (hsha || hfp, b.add_message_integrity(&cr, IntegrityAlgorithm::Sha256)),
            6 => (hfp, b.add_fingerprint()),
            7 => {
                b = b.into_owned();
                (false, Ok(()))
            }
            _ => {
                b = b.clone();
                (false, Ok(()))
            }
        };
        assert!(res.is_err() == refused_want, "C11:operation-refused-or-accepted-against-the-ordering-rules");
        if res.is_err() {
            assert!(b.byte_len() == before_len, "C11:refused-operation-changed-byte-len");
            assert!(b.has_attribute(AttributeType::new(q)) == before_has, "C11:refused-operation-changed-attribute-queries");
            assert!(same_bytes(&b.build(), &before, i), "C11:refused-operation-changed-serialisation");
        } else {
            match op {
                1 => hx = true,
                2 => hy = true,
                3 => hs = true,
                4 => hmi = true,
                5 => hsha = true,
                6 => hfp = true,
                _ => {
                    assert!(b.byte_len() == before_len && same_bytes(&b.build(), &before, i), "C11:into-owned-or-clone-changed-the-builder");
                }
            }
        }
    }
    // the builder's queries agree with what it serialises, and the result is accepted
    let have = (q == 0x7f01 && hx) || (q == 0x7f02 && hy) || (q == 0x8022 && hs) || (q == 0x0008 && hmi) || (q == 0x001C && hsha) || (q == 0x8028 && hfp);
    assert!(b.has_attribute(AttributeType::new(q)) == have, "C11:builder-query-disagrees-with-operations");
    let bytes = b.build();
    match Message::from_bytes(&bytes) {
        Err(_) => assert!(false, "C11:built-message-refused-by-the-parser"),
        Ok(msg) => {
            assert!(msg.has_attribute(AttributeType::new(q)) == have, "C11:builder-query-disagrees-with-serialisation");
            if hmi || hsha {
                assert!(msg.validate_integrity(&cr).is_ok(), "C11:built-message-fails-integrity-validation");
            }
        }
    }
    kani::cover!(c == 1);
}

macro_rules! ord {
    ($name:ident, $OPS:expr) => {
        #[kani::proof]
        #[kani::unwind(6)]
        #[kani::stub(stun_types::attribute::Fingerprint::compute, crc_memo_stub)]
        #[kani::stub(stun_types::attribute::MessageIntegrity::compute, sha1_compute_memo_stub)]
        #[kani::stub(stun_types::attribute::MessageIntegritySha256::compute, sha256_compute_memo_stub)]
        #[kani::stub(stun_types::attribute::MessageIntegrity::verify, sha1_verify_memo_stub)]
        #[kani::stub(stun_types::attribute::MessageIntegritySha256::verify, sha256_verify_memo_stub)]
        #[kani::stub(std::str::from_utf8, crate::c08::utf8_via_ref)]
        fn $name() {
            ordering::<$OPS>();
        }
    };
}
ord!(c11_ops_1141, 1141); // X, X (dup), MI, X (after integrity)
ord!(c11_ops_4546, 4546); // MI, SHA, MI (dup), FP
ord!(c11_ops_5456, 5456); // SHA, MI (refused), SHA (dup), FP
ord!(c11_ops_6456, 6456); // FP, MI, SHA, FP: all refused after FP
ord!(c11_ops_3736, 3736); // SOFTWARE, into_owned, SOFTWARE (dup), FP
ord!(c11_ops_2861, 2861); // Y, clone, FP, X (after fingerprint)
ord!(c11_ops_1253, 1253); // X, Y, SHA, SOFTWARE (after integrity)
ord!(c11_ops_4675, 4675); // MI, FP, into_owned, SHA (refused after FP)
