#!/bin/sh
# RUSTC_WRAPPER for the native replay build: switch the cfg(kani) hooks on for the
# repository crates and the harness sources only (third-party crates such as zerocopy have
# their own meaning for cfg(kani)).
rustc="$1"; shift
case " $* " in
  *" --crate-name stun_types "*|*" --crate-name stun_proto "*|*" --crate-name stunreplay "*)
    exec "$rustc" "$@" --cfg kani --cfg verif_native ;;
  *)
    exec "$rustc" "$@" ;;
esac
