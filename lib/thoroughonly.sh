#!/bin/sh
# development aid: run only the harnesses that the thorough tier adds to the quick tier, property by property
cd "$(dirname "$0")/.."
mkdir -p out
export VERIF_THOROUGH_ONLY=1
for p in ${*:-C06 C17 C14 C10 C02 C01 C05 C18 C20 C07 C04 C09 C16 C03 C11 C12}; do
  s=$(date +%s)
  ./check $p --tier thorough > out/thor-$p.log 2>&1
  echo "$p rc=$? $(( $(date +%s) - s ))s :: $(grep -E '^== .* done' out/thor-$p.log)" >> out/thor.txt
  grep -E "^\s+\[" out/thor-$p.log >> out/thor.txt
done
echo DONE >> out/thor.txt
