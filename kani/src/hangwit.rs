//! Native witness search for "fails to terminate" counterexamples.  When the solver reports a
//! failed UNWINDING assertion inside a function of the repository (a loop of the code under test
//! can run past any bound the harness shape allows), Kani produces no concrete playback.  The
//! verdict is the solver's; this module only concretises it: every message skeleton of the shape
//! the parser harnesses cover (header + up to three attributes drawn from {ordinary, MESSAGE-
//! INTEGRITY, MESSAGE-INTEGRITY-SHA256, FINGERPRINT}, empty or full-size values, genuine CRC) is
//! run through every read-only operation of C01 under a watchdog; the first one that does not
//! come back within 3 s (or panics) is the witness.
use crate::util::*;
use std::sync::mpsc;
use std::time::Duration;
use stun_types::attribute::*;
use stun_types::message::*;
use stun_types::prelude::*;

fn skeleton(class: u8, attrs: &[(u16, usize)]) -> Vec<u8> {
    let mut b = vec![0u8; 20];
    let ty = rfc_type(class, 1);
    b[0] = (ty >> 8) as u8;
    b[1] = ty as u8;
    b[4..8].copy_from_slice(&[0x21, 0x12, 0xa4, 0x42]);
    for i in 8..20 {
        b[i] = i as u8;
    }
    for (t, l) in attrs {
        let off = b.len();
        b.extend_from_slice(&[(*t >> 8) as u8, *t as u8, (*l >> 8) as u8, *l as u8]);
        b.extend(std::iter::repeat(0x5a).take(pad4(*l)));
        let total = (b.len() - 20) as u16;
        b[2] = (total >> 8) as u8;
        b[3] = total as u8;
        if *t == 0x8028 && *l == 4 {
            let v = native_fp_value(&b, off);
            b[off + 4..off + 8].copy_from_slice(&v);
        }
    }
    b
}

fn inspect(bytes: Vec<u8>) {
    let Ok(msg) = Message::from_bytes(&bytes) else { return };
    let mut n = 0usize;
    for a in msg.iter_attributes() {
        n += a.padded_len();
    }
    assert!(n + 20 <= bytes.len());
    let _ = msg.has_attribute(AttributeType::new(0x8028));
    let _ = msg.raw_attribute(AttributeType::new(0x7f7f));
    let _ = msg.attribute::<Fingerprint>();
    let creds: MessageIntegrityCredentials = ShortTermCredentials::new("pw".to_owned()).into();
    let _ = msg.validate_integrity(&creds);
    if msg.class() == MessageClass::Request {
        let _ = Message::check_attribute_types(&msg, &[AttributeType::new(0x7f01), AttributeType::new(0x0008), AttributeType::new(0x001C)], &[]);
    }
    let _ = format!("{}", msg);
}

#[test]
fn hang_witness() {
    let kinds: [(u16, usize); 7] = [(0x7f01, 0), (0x7f01, 3), (0x0008, 0), (0x0008, 20), (0x001C, 0), (0x001C, 32), (0x8028, 4)];
    let mut shapes: Vec<Vec<(u16, usize)>> = vec![vec![]];
    for a in kinds {
        shapes.push(vec![a]);
        for b in kinds {
            shapes.push(vec![a, b]);
            for c in kinds {
                shapes.push(vec![a, b, c]);
            }
        }
    }
    for class in 0..4u8 {
        for s in &shapes {
            let bytes = skeleton(class, s);
            let shown: String = bytes.iter().map(|x| format!("{:02x}", x)).collect();
            let (tx, rx) = mpsc::channel();
            let b2 = bytes.clone();
            std::thread::spawn(move || {
                let r = std::panic::catch_unwind(|| inspect(b2));
                let _ = tx.send(r.is_ok());
            });
            match rx.recv_timeout(Duration::from_secs(3)) {
                Ok(true) => {}
                Ok(false) => panic!("read-only operation panicked on message {}", shown),
                Err(_) => panic!("read-only operation did not terminate within 3 s on message {} (attributes {:?})", shown, s),
            }
        }
    }
}
