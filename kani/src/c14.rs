//! C14: the TCP framing buffer returns exactly the frames that were sent.
use crate::util::*;
use stun_proto::agent::TcpBuffer;

const S: usize = 8;

/// oracle: next frame of stream[consumed..avail], by (u16 length, payload) parsing
fn next_frame(s: &[u8; S], consumed: usize, avail: usize) -> Option<(usize, usize)> {
    if avail < consumed + 2 {
        return None;
    }
    let l = be16(s, consumed);
    if avail < consumed + 2 + l {
        return None;
    }
    Some((consumed + 2, l))
}

fn check_pull(b: &mut TcpBuffer, s: &[u8; S], consumed: &mut usize, avail: usize, idx: usize) {
    let got = b.pull_data();
    match (got, next_frame(s, *consumed, avail)) {
        (None, None) => {}
        (Some(f), Some((start, l))) => {
            assert!(f.len() == l, "C14:frame-length");
            assert!(same_bytes(&f, &s[start..start + l], idx), "C14:frame-bytes-altered-or-merged");
            *consumed = start + l;
        }
        (None, Some(_)) => assert!(false, "C14:complete-frame-not-returned"),
        (Some(_), None) => assert!(false, "C14:frame-returned-without-complete-data"),
    }
}

/// a symbolic stream of N bytes (N, P1 compile-time constants: Vec operations with symbolic
/// sizes drive CBMC past 16 GB), pushed as two chunks cut at P1, a pull after each push and two
/// more at the end.  Frame lengths are symbolic (they are read from the stream).
fn two_pushes<const N: usize, const P1: usize>() {
    let s: [u8; S] = kani::any();
    let idx: usize = kani::any();
    let mut b = TcpBuffer::new();
    let mut consumed = 0usize;
    b.push_data(&s[..P1]);
    check_pull(&mut b, &s, &mut consumed, P1, idx);
    b.push_data(&s[P1..N]);
    check_pull(&mut b, &s, &mut consumed, N, idx);
    check_pull(&mut b, &s, &mut consumed, N, idx);
    check_pull(&mut b, &s, &mut consumed, N, idx);
    kani::cover!(consumed == N);
    kani::cover!(consumed == 0);
}

macro_rules! tp {
    ($name:ident, $N:expr, $P1:expr) => {
        #[kani::proof]
        #[kani::unwind(4)]
        fn $name() {
            two_pushes::<$N, $P1>();
        }
    };
}
tp!(c14_n6_p0, 6, 0);
tp!(c14_n6_p1, 6, 1);
tp!(c14_n6_p2, 6, 2);
tp!(c14_n6_p3, 6, 3);
tp!(c14_n6_p4, 6, 4);
tp!(c14_n6_p5, 6, 5);
tp!(c14_n7_p2, 7, 2);
tp!(c14_n7_p5, 7, 5);
tp!(c14_n5_p3, 5, 3);
tp!(c14_n4_p2, 4, 2);
tp!(c14_n2_p1, 2, 1);
tp!(c14_n8_p4, 8, 4);
