use std::net::{IpAddr, Ipv4Addr, Ipv6Addr, SocketAddr};
use stun_types::attribute::*;
use stun_types::message::*;
use stun_types::prelude::*;

const COOKIE: u32 = 0x2112A442;

fn v4(a: u32, p: u16) -> SocketAddr {
    SocketAddr::new(IpAddr::V4(Ipv4Addr::from(a)), p)
}
fn v6(a: u128, p: u16) -> SocketAddr {
    SocketAddr::new(IpAddr::V6(Ipv6Addr::from(a)), p)
}

#[kani::proof]
#[kani::unwind(21)]
fn c13_ipv4() {
    let a: u32 = kani::any();
    let p: u16 = kani::any();
    let t: u128 = kani::any();
    let tid = TransactionId::from(t);
    let addr = v4(a, p);
    let x = XorMappedAddress::new(addr, tid);
    assert!(x.addr(tid) == addr, "C13:v4-decodes-to-input");
    // IPv4 does not depend on the transaction id at all
    let t2: u128 = kani::any();
    assert!(x.addr(TransactionId::from(t2)) == addr, "C13:v4-independent-of-tid");
    assert!(x.length() == 8, "C13:v4-length");
    let raw = x.to_raw();
    assert!(raw.get_type() == AttributeType::new(0x0020), "C13:type-code");
    assert!(raw.value.len() == 8 && raw.header.length() == 8, "C13:v4-raw-length");
    let v = &raw.value;
    assert!(v[0] == 0 && v[1] == 1, "C13:v4-family-and-reserved");
    assert!(u16::from_be_bytes([v[2], v[3]]) == p ^ 0x2112, "C13:v4-port-xor-cookie-top");
    assert!(u32::from_be_bytes([v[4], v[5], v[6], v[7]]) == a ^ COOKIE, "C13:v4-addr-xor-cookie");
    let back = XorMappedAddress::from_raw(&raw).unwrap();
    assert!(back.addr(tid) == addr, "C13:v4-wire-trip");
    assert!(back == x, "C13:v4-wire-trip-eq");
    let mut dest = [0xa5u8; 16];
    let n = x.write_into(&mut dest).unwrap();
    assert!(n == 12, "C13:v4-write-len");
    assert!(dest[0] == 0x00 && dest[1] == 0x20 && dest[2] == 0 && dest[3] == 8, "C13:v4-write-header");
    let i: usize = kani::any();
    kani::assume(i < 8);
    assert!(dest[4 + i] == v[i], "C13:v4-write-into-equals-to-raw");
    assert!(dest[12] == 0xa5, "C13:v4-write-into-bounded");
    kani::cover!(a == COOKIE && p == 0x2112);
    kani::cover!(a == 0xffff_ffff && p == 0);
}

#[kani::proof]
#[kani::unwind(21)]
fn c13_ipv6() {
    let a: u128 = kani::any();
    let p: u16 = kani::any();
    let t: u128 = kani::any();
    let tid = TransactionId::from(t);
    let addr = v6(a, p);
    let x = XorMappedAddress::new(addr, tid);
    assert!(x.addr(tid) == addr, "C13:v6-decodes-to-input");
    assert!(x.length() == 20, "C13:v6-length");
    let raw = x.to_raw();
    assert!(raw.get_type() == AttributeType::new(0x0020), "C13:type-code");
    assert!(raw.value.len() == 20 && raw.header.length() == 20, "C13:v6-raw-length");
    let v = &raw.value;
    assert!(v[0] == 0 && v[1] == 2, "C13:v6-family-and-reserved");
    assert!(u16::from_be_bytes([v[2], v[3]]) == p ^ 0x2112, "C13:v6-port-xor-cookie-top");
    let key: u128 = ((COOKIE as u128) << 96) | (t & ((1u128 << 96) - 1));
    let want = (a ^ key).to_be_bytes();
    let i: usize = kani::any();
    kani::assume(i < 16);
    assert!(v[4 + i] == want[i], "C13:v6-addr-xor-cookie-tid");
    let back = XorMappedAddress::from_raw(&raw).unwrap();
    assert!(back.addr(tid) == addr, "C13:v6-wire-trip");
    // a different transaction id gives a different address
    let t2: u128 = kani::any();
    let tid2 = TransactionId::from(t2);
    if tid2 != tid {
        assert!(back.addr(tid2) != addr, "C13:v6-other-tid-other-address");
    }
    let mut dest = [0xa5u8; 28];
    let n = x.write_into(&mut dest).unwrap();
    assert!(n == 24, "C13:v6-write-len");
    assert!(dest[0] == 0x00 && dest[1] == 0x20 && dest[2] == 0 && dest[3] == 20, "C13:v6-write-header");
    let j: usize = kani::any();
    kani::assume(j < 20);
    assert!(dest[4 + j] == v[j], "C13:v6-write-into-equals-to-raw");
    assert!(dest[24] == 0xa5, "C13:v6-write-into-bounded");
    kani::cover!(a == key);
    kani::cover!(tid2 != tid && (t ^ t2) >> 96 != 0);
}

/// Decode side on arbitrary wire values: whatever 8/20-byte value is received, decoding under t
/// is the inverse of the RFC XOR (so the encode-side result is not an accident of `new`).
#[kani::proof]
#[kani::unwind(21)]
fn c13_decode_wire() {
    let val: [u8; 20] = kani::any();
    let is6: bool = kani::any();
    let t: u128 = kani::any();
    let tid = TransactionId::from(t);
    let n = if is6 { 20 } else { 8 };
    let raw = RawAttribute::new(AttributeType::new(0x0020), &val[..n]);
    match XorMappedAddress::from_raw(&raw) {
        Ok(x) => {
            assert!(val[1] == if is6 { 2 } else { 1 }, "C13:family-byte-decides");
            let got = x.addr(tid);
            let port = u16::from_be_bytes([val[2], val[3]]) ^ 0x2112;
            assert!(got.port() == port, "C13:decode-port");
            match got.ip() {
                IpAddr::V4(ip) => {
                    assert!(!is6, "C13:decode-family");
                    assert!(u32::from(ip) == u32::from_be_bytes([val[4], val[5], val[6], val[7]]) ^ COOKIE, "C13:decode-v4");
                }
                IpAddr::V6(ip) => {
                    assert!(is6, "C13:decode-family");
                    let mut w = [0u8; 16];
                    w.copy_from_slice(&val[4..20]);
                    let key: u128 = ((COOKIE as u128) << 96) | (t & ((1u128 << 96) - 1));
                    assert!(u128::from(ip) == u128::from_be_bytes(w) ^ key, "C13:decode-v6");
                }
            }
        }
        Err(_) => assert!(val[1] != if is6 { 2 } else { 1 }, "C13:valid-family-accepted"),
    }
    kani::cover!(is6 && val[1] == 2);
    kani::cover!(!is6 && val[1] == 1);
}
