//! `#[instrument(..)]` that returns the annotated item unchanged (see ../tracing).
use proc_macro::TokenStream;

#[proc_macro_attribute]
pub fn instrument(_args: TokenStream, item: TokenStream) -> TokenStream {
    item
}
