//! C01: decoding and inspection never panic or hang.  No oracle: Kani's built-in checks
//! (panic, unwrap, unreachable!, arithmetic overflow, index/slice bounds, unwinding assertions)
//! on the real code are the property.
use crate::c02::crc_oracle;
use crate::refdec::*;
use crate::stubs::*;
use crate::util::*;
use stun_types::attribute::*;
use stun_types::message::*;
use stun_types::prelude::*;

#[kani::proof]
#[kani::unwind(5)]
fn c01_message_type_any_length() {
    let buf: [u8; 4] = kani::any();
    let len: usize = kani::any();
    kani::assume(len <= 4);
    let r = MessageType::from_bytes(&buf[..len]);
    let r2 = MessageType::try_from(&buf[..len]);
    assert!(r.is_ok() == r2.is_ok(), "C01:try-from-equals-from-bytes");
    kani::cover!(len == 0);
    kani::cover!(len == 1);
    kani::cover!(len == 4 && r.is_ok());
}

#[kani::proof]
#[kani::unwind(5)]
fn c01_header_any_length() {
    let buf: [u8; 24] = kani::any();
    let len: usize = kani::any();
    kani::assume(len <= 24);
    let r = MessageHeader::from_bytes(&buf[..len]);
    kani::cover!(r.is_ok());
    kani::cover!(len == 0);
}

#[kani::proof]
#[kani::unwind(5)]
fn c01_raw_attribute_small() {
    let buf: [u8; 16] = kani::any();
    let len: usize = kani::any();
    kani::assume(len <= 16);
    if let Ok(a) = RawAttribute::from_bytes(&buf[..len]) {
        assert!(a.value.len() + 4 <= len, "C01:raw-attribute-value-inside-buffer");
        let _ = a.padded_len();
        let _ = a.length();
    }
    let h = AttributeHeader::try_from(&buf[..len]);
    assert!(h.is_ok() == (len >= 4), "C01:attribute-header-needs-4-bytes");
    kani::cover!(len == 16);
    kani::cover!(len == 3);
}

/// the 16-bit boundary: a raw attribute decoded from a buffer of up to 70000 bytes
#[kani::proof]
#[kani::unwind(5)]
fn c01_raw_attribute_70000() {
    let buf: [u8; 70000] = kani::any();
    let len: usize = kani::any();
    kani::assume(len <= 70000);
    if let Ok(a) = RawAttribute::from_bytes(&buf[..len]) {
        assert!(a.value.len() + 4 <= len, "C01:raw-attribute-value-inside-buffer");
        let _ = a.padded_len();
    }
    kani::cover!(len == 70000);
    kani::cover!(len == 65540);
}

/// whole-message parse of arbitrary bytes, then every attribute is walked and one typed lookup made
fn inspect<const N: usize>() {
    prelude!(N, buf, len, probe, q, data, res, r);
    if let Ok(msg) = &res {
        let mut n = 0usize;
        for a in msg.iter_attributes() {
            n += a.padded_len();
        }
        assert!(n + 20 <= len, "C01:iteration-stays-inside-the-buffer");
        let _ = msg.has_attribute(AttributeType::new(q));
        let _ = msg.get_type();
        let _ = msg.is_response();
    }
    kani::cover!(res.is_ok() && r.n >= 2);
}

#[kani::proof]
#[kani::unwind(5)]
#[kani::stub(stun_types::attribute::Fingerprint::compute, crc_stub)]
fn c01_inspect_32() {
    inspect::<32>();
}

#[kani::proof]
#[kani::unwind(8)]
#[kani::stub(stun_types::attribute::Fingerprint::compute, crc_stub)]
fn c01_inspect_44() {
    inspect::<44>();
}

/// typed extraction on an accepted message (the generic `attribute::<A>()` = first match +
/// A::from_raw; A::from_raw for all 19 A on arbitrary raw attributes is c01 part B)
macro_rules! typed {
    ($name:ident, $T:ty) => {
        #[kani::proof]
        #[kani::unwind(5)]
        #[kani::stub(stun_types::attribute::Fingerprint::compute, crc_stub)]
        #[kani::stub(std::str::from_utf8, crate::c08::utf8_via_ref)]
        fn $name() {
            prelude!(32, buf, len, probe, q, data, res, r);
            if let Ok(msg) = &res {
                let x = msg.attribute::<$T>();
                kani::cover!(x.is_ok());
                kani::cover!(matches!(x, Err(StunParseError::MissingAttribute(_))));
            }
        }
    };
}
typed!(c01_typed_error_code, ErrorCode);
typed!(c01_typed_xor_mapped_address, XorMappedAddress);
typed!(c01_typed_username, Username);
typed!(c01_typed_fingerprint, Fingerprint);

/// attribute-type policing on a non-request message: header-only message of symbolic
/// indication/success/error class, one required type (absent).  Longer messages make the
/// iterator/closure nest of check_attribute_types unroll for > 10 minutes; policing of requests
/// (including the response it builds) is C16.
fn policing_non_request<const CLASS: u8>() {
    // the class is a constant per instantiation: with a symbolic class CBMC also unrolls the whole
    // (infeasible) error-response builder path after the panic check
    let class: u8 = CLASS;
    // (the method is fixed as well: the class bits are interleaved with the method bits in the
    // type field, and a symbolic method makes the class symbolic for CBMC's constant propagation)
    let method: u16 = 0x001;
    let t: u128 = kani::any();
    let req: u16 = kani::any();
    let b = crate::agentworld::header_msg(class, method, t.into());
    let msg = Message::from_bytes(&b).unwrap();
    let reqt = [AttributeType::new(req)];
    let out = Message::check_attribute_types(&msg, &[], &reqt);
    kani::cover!(out.is_some());
    std::mem::forget(out);
}

#[kani::proof]
#[kani::unwind(4)]
fn c01_policing_indication() {
    policing_non_request::<1>();
}

#[kani::proof]
#[kani::unwind(4)]
fn c01_policing_success_response() {
    policing_non_request::<2>();
}

#[kani::proof]
#[kani::unwind(4)]
fn c01_policing_error_response() {
    policing_non_request::<3>();
}
