#!/usr/bin/env python3
"""Run the registered checks against the seeded changes of /verif/seeded/<id>/.

  lib/seedrun.py [--tier quick|thorough] [--only <harness-substring>] [--props C05,C06] <seed-id>...
  lib/seedrun.py --readme          regenerate seeded/README.md from the recorded results

For every seed: `git -C /repo apply patch.diff`, run `./check <property>` (the property the seed
breaks, plus --props if given), record exit code, VIOLATION lines and failed assertion keys in
seeded/<id>/result.json, then `git -C /repo checkout -- .` (always, also on error).  Evidence of
these runs goes to out/seed-evidence so the evidence of the unchanged tree is never overwritten.
Refuses to start when /repo has uncommitted changes.
"""
import argparse
import glob
import json
import os
import re
import subprocess
import sys
import time

ROOT = os.path.dirname(os.path.dirname(os.path.abspath(__file__)))
SEEDS = os.path.join(ROOT, "seeded")


def sh(cmd, **kw):
    p = subprocess.run(cmd, stdout=subprocess.PIPE, stderr=subprocess.STDOUT, text=True, **kw)
    return p.returncode, p.stdout


def meta_of(d):
    for n in ("meta.json", "meta.agent.json"):
        p = os.path.join(d, n)
        if os.path.exists(p):
            return json.load(open(p))
    return {}


def run_seed(sid, tier, only, props):
    d = os.path.join(SEEDS, sid)
    meta = meta_of(d)
    patch = os.path.join(d, "patch.diff")
    rc, out = sh(["git", "-C", "/repo", "status", "--porcelain", "--untracked-files=no"])
    if out.strip():
        print("refusing: /repo has uncommitted changes\n" + out)
        return None
    plist = props or meta.get("detect_with") or [meta["property"]]
    res = {"seed": sid, "tier": tier, "runs": []}
    rc, out = sh(["git", "-C", "/repo", "apply", patch])
    if rc != 0:
        print("patch does not apply:", out)
        return None
    try:
        env = dict(os.environ, VERIF_EVIDENCE_DIR=os.path.join(ROOT, "out", "seed-evidence"))
        for prop in plist:
            cmd = [os.path.join(ROOT, "check"), prop, "--tier", tier]
            if only:
                cmd += ["--only", only]
            t0 = time.time()
            rc, out = sh(cmd, cwd=ROOT, env=env)
            dt = time.time() - t0
            os.makedirs(os.path.join(ROOT, "out"), exist_ok=True)
            open(os.path.join(ROOT, "out", "seed-%s-%s.log" % (sid, prop)), "w").write(out)
            viol = re.findall(r"^VIOLATION .*$", out, re.M)
            keys = sorted(set(re.findall(r"keys=\[([^\]]*)\]", out)))
            failed = re.findall(r"^\s+\[FAIL\]\s+(\S+)", out, re.M)
            inconc = re.findall(r"^INCONCLUSIVE .*$", out, re.M)
            res["runs"].append({"property": prop, "cmd": " ".join(cmd[1:]) if False else "./check %s --tier %s%s" % (prop, tier, (" --only " + only) if only else ""),
                                "exit": rc, "wall_s": round(dt), "violation_lines": viol, "failed_harnesses": failed,
                                "failed_keys": keys, "inconclusive": [i[:200] for i in inconc][:6]})
            print("%s %s: exit %d in %ds, %d VIOLATION line(s), failed: %s" % (sid, prop, rc, dt, len(viol), ",".join(failed)))
    finally:
        sh(["git", "-C", "/repo", "checkout", "--", "."])
    res["detected"] = any(r["exit"] == 1 and r["violation_lines"] for r in res["runs"])
    rc, head = sh(["git", "-C", "/repo", "rev-parse", "--short", "HEAD"])
    res["repo_head"] = head.strip()
    old = os.path.join(d, "result.json")
    hist = []
    if os.path.exists(old):
        try:
            hist = json.load(open(old)).get("history", [])
        except Exception:  # noqa: BLE001
            hist = []
    res["history"] = hist + [{"tier": tier, "only": only, "detected": res["detected"],
                              "runs": [(r["property"], r["exit"], r["failed_keys"]) for r in res["runs"]]}]
    json.dump(res, open(old, "w"), indent=1)
    return res


def readme():
    rows = []
    for d in sorted(glob.glob(os.path.join(SEEDS, "*/"))):
        sid = os.path.basename(d.rstrip("/"))
        meta = meta_of(d)
        if not meta:
            continue
        rp = os.path.join(d, "result.json")
        r = json.load(open(rp)) if os.path.exists(rp) else None
        if r:
            det = "; ".join("%s exit %d %s" % (x["property"], x["exit"], ",".join(x["failed_keys"])[:160]) for x in r["runs"])
            verdict = "DETECTED" if r["detected"] else "missed"
        else:
            det, verdict = "", "not run"
        rows.append("| %s | %s | %s | %s | %s |" % (sid, meta.get("property", ""), meta.get("needs", "")[:220].replace("|", "/").replace("\n", " "),
                                                    verdict, det.replace("|", "/")))
    txt = ("# Seeded changes\n\nEach directory holds `patch.diff` (apply with `git -C /repo apply`), the independent demonstration `demo.rs`, "
           "`meta.json` (what it breaks, what it needs to manifest, what was run to confirm it) and `result.json` (what the registered check "
           "reported with the patch applied; written by `lib/seedrun.py`).\n\n| seed | property | needs | check verdict | reported by |\n|---|---|---|---|---|\n"
           + "\n".join(rows) + "\n")
    open(os.path.join(SEEDS, "README.md"), "w").write(txt)
    print(txt)


def main():
    ap = argparse.ArgumentParser()
    ap.add_argument("seeds", nargs="*")
    ap.add_argument("--tier", default="quick")
    ap.add_argument("--only", default=None)
    ap.add_argument("--props", default=None)
    ap.add_argument("--readme", action="store_true")
    a = ap.parse_args()
    if a.readme:
        readme()
        return 0
    seeds = a.seeds or sorted(os.path.basename(d.rstrip("/")) for d in glob.glob(os.path.join(SEEDS, "*/")))
    missed = 0
    for s in seeds:
        r = run_seed(s, a.tier, a.only, a.props.split(",") if a.props else None)
        if r is None or not r["detected"]:
            missed += 1
    readme()
    return 1 if missed else 0


if __name__ == "__main__":
    sys.exit(main())
