#!/bin/sh
# Offline setup: warm the Kani build of the harness crate against /repo's current tree and the
# native replay crate.  Nothing is fetched; every check rebuilds incrementally anyway.
set -e
cd "$(dirname "$0")"
export CARGO_NET_OFFLINE=true
mkdir -p out evidence replay/cases
[ -f kani/Cargo.lock ] || cp /repo/Cargo.lock kani/Cargo.lock
[ -f replay/Cargo.lock ] || cp /repo/Cargo.lock replay/Cargo.lock
(cd kani && cargo kani --only-codegen --harness c19::c19_transaction_id_mask --exact -Z unstable-options -Z stubbing --no-assertion-reach-checks >../out/setup-kani.log 2>&1) || { tail -50 out/setup-kani.log; exit 1; }
(cd replay && RUSTC_WRAPPER="$PWD/rustc-wrapper.sh" cargo test --no-run >../out/setup-replay.log 2>&1 && RUSTC_WRAPPER="$PWD/rustc-wrapper.sh" cargo test --release --no-run >>../out/setup-replay.log 2>&1) || { tail -50 out/setup-replay.log; exit 1; }
echo setup ok
