"""Driver glue for Engine B (smt/mirkernel.py): one job = all checked-arithmetic sites of the
configured functions of one crate."""
import json
import os
import re
import subprocess
import sys
import time

ROOT = os.path.dirname(os.path.dirname(os.path.abspath(__file__)))
sys.path.insert(0, os.path.join(ROOT, "smt"))
import mirkernel  # noqa: E402


def assumptions_for(contracts, fn_simple, roots):
    out = []
    notes = []
    for pat, tmpls in contracts["roots"]:
        for sym in roots:
            if re.search(pat, sym):
                w = roots[sym][0]
                for t in tmpls:
                    # templates are written for 64-bit roots; adapt the literal width, drop bounds
                    # that exceed the root's range
                    m = re.search(r"\(_ bv(\d+) 64\)", t)
                    if m and w != 64:
                        if int(m.group(1)) >= (1 << w):
                            continue
                        t = t.replace(m.group(0), "(_ bv%s %d)" % (m.group(1), w))
                    out.append(t.replace("{x}", sym))
    for tmpl, why in contracts["relations"].get(fn_simple, []):
        names = re.findall(r"\{(\w+)\}", tmpl)
        # numbered call roots may move when the code changes: match by prefix without the number
        subst = {}
        ok = True
        for n in names:
            if n in roots:
                subst[n] = n
                continue
            base = re.sub(r"_\d+$", "", n)
            cands = [r for r in roots if re.sub(r"_\d+$", "", r) == base]
            if len(cands) == 1:
                subst[n] = cands[0]
            else:
                ok = False
        if ok:
            a = tmpl
            for n, v in subst.items():
                a = a.replace("{" + n + "}", v)
            out.append(a)
            notes.append(why)
    return out, notes


def native_replay(site_fn, model):
    """Run the native generator for a satisfiable site (dev profile: overflow checks on)."""
    import engine
    ok, bout = engine.build_replay()
    if not ok:
        return "error", "replay crate does not build"
    env = dict(engine.ENV, RUSTC_WRAPPER=os.path.join(engine.REPLAY_DIR, "rustc-wrapper.sh"),
               VERIF_SMT_MODEL=json.dumps(model), RUST_BACKTRACE="0")
    test = "smtreplay::site_" + site_fn
    cmd = ["cargo", "test", "--lib", "--", test, "--exact", "--test-threads", "1"]
    try:
        rc, out = engine.sh(cmd, cwd=engine.REPLAY_DIR, timeout=300, env=env)
    except subprocess.TimeoutExpired:
        return "hang", "native generator exceeded 300 s"
    if "running 1 test" not in out:
        return "no-generator", "no native generator `%s`" % test
    if re.search(r"test result: FAILED|panicked at", out):
        m = re.search(r"panicked at (.*?)(?:\nnote:|\n\n|$)", out, re.S)
        return "reproduced", (m.group(1).strip()[:500] if m else out[-500:])
    return "passed", ""


def run_job(job, tier):
    t0 = time.time()
    crate = job["crate"]
    contracts = json.load(open(os.path.join(ROOT, "smt", "contracts.json")))
    r = {"h": job["h"], "failed": [], "covers": [], "n_checks": 0, "n_failed": 0, "steps": 0, "vars": 0, "clauses": 0,
         "solver_s": 0.0, "symex_s": 0.0, "solver_calls": 0, "queries": [], "replays": [], "unwindset": []}
    try:
        mir = mirkernel.dump_mir(crate)
    except Exception as e:  # noqa: BLE001
        r.update(state="inconclusive", why="MIR dump failed: %s" % str(e)[:300], wall_s=round(time.time() - t0, 1))
        return r
    fns = mirkernel.parse(mir)
    consts = mirkernel.consts_from_source()
    want = contracts["functions"][crate]
    found = set()
    info = []
    for f in fns:
        if f.simple not in want:
            continue
        for kind, ln, stmt, cond, roots in mirkernel.sites_of(f, consts):
            if kind == "skip":
                info.append("not encoded (%s): %s" % (cond, stmt[:80]))
                continue
            found.add(f.simple)
            assume, notes = assumptions_for(contracts, f.simple, roots)
            verdicts = {}
            model = {}
            for solver in ("z3", "cvc5"):
                try:
                    v, m, dt, text = mirkernel.solve(roots, assume, cond, solver)
                except Exception as e:  # noqa: BLE001
                    v, m, dt = "error", {}, 0
                verdicts[solver] = v
                r["solver_s"] += dt
                r["solver_calls"] += 1
                if v == "sat" and not model:
                    model = m
            q = {"function": f.name, "kind": kind, "mir_line": ln, "stmt": stmt[:120], "roots": sorted(roots), "assumed": assume,
                 "z3": verdicts["z3"], "cvc5": verdicts["cvc5"]}
            r["queries"].append(q)
            if kind == "narrowing-cast":
                # `as` truncation is defined behaviour, not a panic: recorded, never a violation of C01
                q["note"] = "informational (silent truncation, cannot panic)"
                continue
            r["n_checks"] += 1
            if verdicts["z3"] == "unsat" and verdicts["cvc5"] == "unsat":
                continue
            if verdicts["z3"] == "sat" and verdicts["cvc5"] == "sat":
                key = "C01:overflow-%s-%s" % (f.simple, re.sub(r"[^a-z0-9]+", "-", stmt.split("=", 1)[1].strip().lower())[:50].strip("-"))
                r["n_failed"] += 1
                r["failed"].append({"name": key, "status": "FAILURE", "desc": key, "loc": "%s (MIR line %d)" % (f.name, ln)})
                st, det = native_replay(f.simple, model)
                path = os.path.join(ROOT, "replay", "cases", "C01-smt-%s-%d.json" % (f.simple, ln))
                os.makedirs(os.path.dirname(path), exist_ok=True)
                json.dump({"property": "C01", "engine": "mir-smt", "function": f.name, "site": stmt, "model": model, "native": st,
                           "detail": det}, open(path, "w"), indent=1)
                r["replays"].append({"status": st, "path": path, "detail": det, "key": key})
            else:
                r.update(state="inconclusive", why="solvers disagree or error on %s: %s" % (stmt[:60], verdicts))
    missing = [w for w in want if w not in found and w not in ("padded_len", "byte_len")]
    r["wall_s"] = round(time.time() - t0, 1)
    r["covers"] = [{"name": "sites", "status": "SATISFIED" if r["n_checks"] >= job.get("min_sites", 1) else "UNSATISFIABLE",
                    "desc": "at least %d checked-arithmetic sites were found and encoded (%d found)" % (job.get("min_sites", 1), r["n_checks"])}]
    r["info"] = info
    if "state" in r:
        return r
    if r["n_failed"]:
        r["state"] = "fail"
        r["verdict"] = "FAILED"
    elif r["covers"][0]["status"] != "SATISFIED":
        r["state"] = "vacuous"
        r["why"] = r["covers"][0]["desc"]
    else:
        r["state"] = "pass"
    return r


if __name__ == "__main__":
    res = run_job({"h": "smt::" + sys.argv[1], "crate": sys.argv[1]}, "quick")
    for q in res["queries"]:
        print(q["z3"], q["cvc5"], q["kind"], q["stmt"][:90])
    print(res["state"], res.get("why", ""), [f["desc"] for f in res["failed"]], res["replays"])
