//! Builder side of C03 / C04 / C09 / C12 as a byte-layout claim: whatever the builder serialises
//! is exactly the RFC layout of (type, id, attribute, seals) -- and the bytes handed to the MAC /
//! CRC are the message so far with the length field covering the seal attribute.  The parser side
//! of the round trip (every buffer of this shape is read back as encoded) is C02's claim on all
//! buffers; the end-to-end builder->parser queries (builder.rs) need 30+ min and > 16 GB each and
//! are thorough-tier.  Hash primitives are recorder stubs with unconstrained output.
use crate::stubs::*;
use crate::util::*;
use stun_types::attribute::*;
use stun_types::message::*;
use stun_types::prelude::*;

pub const S_MI: u8 = 1;
pub const S_SHA: u8 = 2;
pub const S_FP: u8 = 4;

pub struct SealRec {
    pub calls: usize,
    pub len: usize,
    pub b2: u8,
    pub b3: u8,
    pub probe_byte: u8,
    pub key_len: usize,
    pub key0: u8,
    pub key1: u8,
    pub out: [u8; 32],
}
const SR0: SealRec = SealRec { calls: 0, len: 0, b2: 0, b3: 0, probe_byte: 0, key_len: 0, key0: 0, key1: 0, out: [0; 32] };
pub static mut R_SHA1: SealRec = SR0;
pub static mut R_SHA256: SealRec = SR0;
pub static mut R_CRC: SealRec = SR0;
pub static mut R_PROBE: usize = 0;

fn record(r: &mut SealRec, data: &[u8], key: &[u8]) -> [u8; 32] {
    r.calls += 1;
    r.len = data.len();
    r.b2 = rd(data, 2);
    r.b3 = rd(data, 3);
    let p = unsafe { R_PROBE };
    r.probe_byte = rd(data, p);
    r.key_len = key.len();
    r.key0 = rd(key, 0);
    r.key1 = rd(key, 1);
    let out: [u8; 32] = kani::any();
    r.out = out;
    out
}

pub fn sha1_compute_rec(data: &[u8], key: &[u8]) -> Result<[u8; 20], StunWriteError> {
    let o = record(unsafe { &mut R_SHA1 }, data, key);
    let mut r = [0u8; 20];
    r.copy_from_slice(&o[..20]);
    Ok(r)
}

pub fn sha256_compute_rec(data: &[u8], key: &[u8]) -> Result<[u8; 32], StunWriteError> {
    Ok(record(unsafe { &mut R_SHA256 }, data, key))
}

pub fn crc_compute_rec(data: &[u8]) -> [u8; 4] {
    let o = record(unsafe { &mut R_CRC }, data, &[]);
    [o[0], o[1], o[2], o[3]]
}

/// b[i] without a panicking bounds check (every feasible-looking bounds failure costs CBMC a trip
/// through core's panic formatting, ~15 s of symex each): out-of-range reads give 0xEE
fn rd(b: &[u8], i: usize) -> u8 {
    match b.get(i) {
        Some(x) => *x,
        None => 0xEE,
    }
}

fn be(b: &[u8], o: usize) -> usize {
    ((rd(b, o) as usize) << 8) | rd(b, o + 1) as usize
}

fn creds() -> MessageIntegrityCredentials {
    ShortTermCredentials::new(String::from("pw")).into()
}

/// one raw attribute of L value bytes (symbolic non-seal type, symbolic content) + the seals in
/// SEALS (bit 1 MESSAGE-INTEGRITY, 2 MESSAGE-INTEGRITY-SHA256, 4 FINGERPRINT, added in that order)
// (macro-generated with LITERAL seal flags: with `const SEALS: u8` generics the `if SEALS & .. != 0`
// conditions are not folded before symbolic execution and every instantiation explores all three
// sealing paths -- the no-seal instantiation went from 17 s to > 10 min)
macro_rules! lay {
    ($name:ident, $L:expr, $mi:expr, $sha:expr, $fp:expr) => {
        #[kani::proof]
        #[kani::unwind(6)]
        #[kani::stub(core::result::unwrap_failed, crate::util::unwrap_failed_stub)]
        #[kani::stub(stun_types::attribute::Fingerprint::compute, crc_compute_rec)]
        #[kani::stub(stun_types::attribute::MessageIntegrity::compute, sha1_compute_rec)]
        #[kani::stub(stun_types::attribute::MessageIntegritySha256::compute, sha256_compute_rec)]
        fn $name() {
    let (c, m, mt) = any_mtype();
    let t: u128 = kani::any();
    // the attribute type is a constant: with a symbolic type the refusal arms of add_raw_attribute
    // (AttributeExists(ty), the three panics) stay feasible for CBMC and drag the Debug formatting
    // machinery of core into the query (no result after 10 minutes; 80 s with a constant)
    let at: u16 = 0x7f01;
    let val: [u8; $L] = kani::any();
    let p: usize = kani::any();
    unsafe {
        R_PROBE = p;
    }
    let mut b = Message::builder(mt, t.into());
    if b.add_raw_attribute(RawAttribute::new(AttributeType::new(at), &val)).is_err() {
        // (no unwrap: with a symbolic attribute type the Err arm is feasible for CBMC and unwrap_failed drags
        // the whole Debug formatting machinery into the query -- 30+ minutes)
        assert!(false, "C11:builder-refused-an-operation-the-ordering-rules-allow");
        return;
    }
    let cr = creds();
    if $mi {
        if b.add_message_integrity(&cr, IntegrityAlgorithm::Sha1).is_err() {
            // (no unwrap: with a symbolic attribute type the Err arm is feasible for CBMC and unwrap_failed drags
            // the whole Debug formatting machinery into the query -- 30+ minutes)
            assert!(false, "C11:builder-refused-an-operation-the-ordering-rules-allow");
            return;
        }
    }
    if $sha {
        if b.add_message_integrity(&cr, IntegrityAlgorithm::Sha256).is_err() {
            // (no unwrap: with a symbolic attribute type the Err arm is feasible for CBMC and unwrap_failed drags
            // the whole Debug formatting machinery into the query -- 30+ minutes)
            assert!(false, "C11:builder-refused-an-operation-the-ordering-rules-allow");
            return;
        }
    }
    if $fp {
        if b.add_fingerprint().is_err() {
            // (no unwrap: with a symbolic attribute type the Err arm is feasible for CBMC and unwrap_failed drags
            // the whole Debug formatting machinery into the query -- 30+ minutes)
            assert!(false, "C11:builder-refused-an-operation-the-ordering-rules-allow");
            return;
        }
    }
    let a_end = 20 + 4 + pad4($L);
    let mi_off = a_end;
    let sha_off = mi_off + if $mi { 24 } else { 0 };
    let fp_off = sha_off + if $sha { 36 } else { 0 };
    let want_len = fp_off + if $fp { 8 } else { 0 };
    let bytes = b.build();
    assert!(bytes.len() == want_len, "C03:serialised-length");
    assert!(bytes.len() % 4 == 0, "C03:length-not-multiple-of-four");
    assert!(b.byte_len() == bytes.len(), "C03:byte-len-differs-from-serialisation");
    if bytes.len() != want_len {
        return;
    }
    assert!(be(&bytes, 2) == want_len - 20, "C03:header-length-field");
    let ty = rfc_type(c, m);
    assert!(rd(&bytes, 0) == (ty >> 8) as u8 && rd(&bytes, 1) == ty as u8, "C03:class-or-method-changed");
    assert!(rd(&bytes, 4) == 0x21 && rd(&bytes, 5) == 0x12 && rd(&bytes, 6) == 0xa4 && rd(&bytes, 7) == 0x42, "C03:magic-cookie");
    let idb = (t & ((1u128 << 96) - 1)).to_be_bytes();
    if p >= 8 && p < 20 {
        assert!(rd(&bytes, p) == rd(&idb, p - 4), "C03:transaction-id-changed");
    }
    assert!(be(&bytes, 20) == at as usize && be(&bytes, 22) == $L, "C03:attribute-changed");
    if p >= 24 && p < 24 + $L {
        assert!(rd(&bytes, p) == rd(&val, p - 24), "C03:attribute-value-changed");
    }
    if p >= 24 + $L && p < a_end {
        assert!(rd(&bytes, p) == 0, "C12:padding-not-zero");
    }
    if $mi {
        let r = unsafe { &R_SHA1 };
        assert!(be(&bytes, mi_off) == 0x0008 && be(&bytes, mi_off + 2) == 20, "C03:message-integrity-not-read-back");
        if p < 20 {
            assert!(rd(&bytes, mi_off + 4 + p) == rd(&r.out, p), "C03:message-integrity-value-changed");
        }
        // RFC 8489 s14.5: HMAC over the message up to the attribute, length field ending at it
        assert!(r.calls == 1 && r.len == mi_off, "C04:hmac-input-is-not-the-message-up-to-the-integrity-attribute");
        let l = mi_off + 24 - 20;
        assert!(r.b2 == (l >> 8) as u8 && r.b3 == l as u8, "C04:hmac-input-length-field-does-not-end-at-the-integrity-attribute");
        if p < mi_off && p != 2 && p != 3 {
            assert!(r.probe_byte == rd(&bytes, p), "C04:hmac-input-bytes-modified");
        }
        assert!(r.key_len == 2 && r.key0 == b'p' && r.key1 == b'w', "C04:short-term-key-is-not-the-password");
    }
    if $sha {
        let r = unsafe { &R_SHA256 };
        assert!(be(&bytes, sha_off) == 0x001C && be(&bytes, sha_off + 2) == 32, "C03:message-integrity-sha256-not-read-back");
        if p < 32 {
            assert!(rd(&bytes, sha_off + 4 + p) == rd(&r.out, p), "C03:message-integrity-sha256-value-changed");
        }
        assert!(r.calls == 1 && r.len == sha_off, "C04:hmac-input-is-not-the-message-up-to-the-integrity-attribute");
        let l = sha_off + 36 - 20;
        assert!(r.b2 == (l >> 8) as u8 && r.b3 == l as u8, "C04:hmac-input-length-field-does-not-end-at-the-integrity-attribute");
        if p < sha_off && p != 2 && p != 3 {
            assert!(r.probe_byte == rd(&bytes, p), "C04:hmac-input-bytes-modified");
        }
        assert!(r.key_len == 2 && r.key0 == b'p' && r.key1 == b'w', "C04:short-term-key-is-not-the-password");
    }
    if $fp {
        let r = unsafe { &R_CRC };
        assert!(be(&bytes, fp_off) == 0x8028 && be(&bytes, fp_off + 2) == 4, "C03:fingerprint-not-read-back");
        // RFC 8489 s14.7: CRC over the message up to the attribute (length covering it) XOR 0x5354554e
        let x = [0x53u8, 0x54, 0x55, 0x4e];
        if p < 4 {
            assert!(rd(&bytes, fp_off + 4 + p) == rd(&r.out, p) ^ rd(&x, p), "C09:fingerprint-is-not-crc-xor-constant");
        }
        assert!(r.calls == 1 && r.len == fp_off, "C09:crc-input-is-not-the-message-up-to-the-fingerprint");
        let l = fp_off + 8 - 20;
        assert!(r.b2 == (l >> 8) as u8 && r.b3 == l as u8, "C09:crc-input-length-field-does-not-cover-the-fingerprint");
        if p < fp_off && p != 2 && p != 3 {
            assert!(r.probe_byte == rd(&bytes, p), "C09:crc-input-bytes-modified");
        }
    }
    kani::cover!(c == 2 && m == 0x123);
    kani::cover!(p == 21);
        }
    };
}
lay!(c03_layout_l1_none, 1, false, false, false);
lay!(c03_layout_l0_none, 0, false, false, false);
lay!(c03_layout_l4_fp, 4, false, false, true);
lay!(c03_layout_l2_mi, 2, true, false, false);
lay!(c03_layout_l3_sha, 3, false, true, false);
lay!(c03_layout_l5_mi_fp, 5, true, false, true);
lay!(c03_layout_l1_mi_sha_fp, 1, true, true, true);
lay!(c03_layout_l6_sha_fp, 6, false, true, true);
lay!(c03_layout_l7_mi_sha, 7, true, true, false);

// ------------------------------------------------------------------ C11: ordering rules (cheap)

/// A sequence of four builder operations (decimal digits of OPS, most significant first):
/// 1 add raw X (0x7f01), 2 add raw Y (0x7f02), 4 SHA-1 integrity, 5 SHA-256 integrity,
/// 6 fingerprint, 7 into_owned, 8 clone-and-continue.  After every operation the outcome is
/// compared with the statement's rule; a refused operation must leave byte_len() and
/// has_attribute(q) (symbolic q) unchanged.  At the end the builder's queries and the serialised
/// length agree with the operations that were accepted.  That the serialisation of such a builder
/// is the RFC layout (and so parses and validates) is the layout harness above; the end-to-end
/// sequences with parse + validate_integrity are builder::c11_ops_* (thorough tier).
// (macro-generated with the operation sequence as LITERALS, one copy of the step per operation:
// a const-generic OPS is not folded before symbolic execution, see `lay!`)
macro_rules! rul {
    ($name:ident, [$($op:expr),*]) => {
        #[kani::proof]
        #[kani::unwind(6)]
        #[kani::stub(core::result::unwrap_failed, crate::util::unwrap_failed_stub)]
        #[kani::stub(stun_types::attribute::Fingerprint::compute, crc_compute_rec)]
        #[kani::stub(stun_types::attribute::MessageIntegrity::compute, sha1_compute_rec)]
        #[kani::stub(stun_types::attribute::MessageIntegritySha256::compute, sha256_compute_rec)]
        fn $name() {
    let (c, m, mt) = any_mtype();
    let t: u128 = kani::any();
    let q: u16 = kani::any();
    let vx: [u8; 2] = kani::any();
    let vy: [u8; 3] = kani::any();
    let cr = creds();
    let mut b = Message::builder(mt, t.into());
    let (mut hx, mut hy, mut hmi, mut hsha, mut hfp) = (false, false, false, false, false);
    let mut want_len = 20usize;
            $( {
        let before_len = b.byte_len();
        let before_has = b.has_attribute(AttributeType::new(q));
        let sealed = hmi || hsha || hfp;
        let (refused_want, res): (bool, Result<(), StunWriteError>) = match $op {
            1 => (hx || sealed, b.add_raw_attribute(RawAttribute::new(AttributeType::new(0x7f01), &vx))),
            2 => (hy || sealed, b.add_raw_attribute(RawAttribute::new(AttributeType::new(0x7f02), &vy))),
            4 => (hmi || hsha || hfp, b.add_message_integrity(&cr, IntegrityAlgorithm::Sha1)),
            5 => (hsha || hfp, b.add_message_integrity(&cr, IntegrityAlgorithm::Sha256)),
            6 => (hfp, b.add_fingerprint()),
            7 => {
                b = b.into_owned();
                (false, Ok(()))
            }
            _ => {
                b = b.clone();
                (false, Ok(()))
            }
        };
        let refused = res.is_err();
        std::mem::forget(res);
        assert!(refused == refused_want, "C11:operation-refused-or-accepted-against-the-ordering-rules");
        if refused {
            assert!(b.byte_len() == before_len, "C11:refused-operation-changed-byte-len");
            assert!(b.has_attribute(AttributeType::new(q)) == before_has, "C11:refused-operation-changed-attribute-queries");
        } else {
            match $op {
                1 => {
                    hx = true;
                    want_len += 8;
                }
                2 => {
                    hy = true;
                    want_len += 8;
                }
                4 => {
                    hmi = true;
                    want_len += 24;
                }
                5 => {
                    hsha = true;
                    want_len += 36;
                }
                6 => {
                    hfp = true;
                    want_len += 8;
                }
                _ => {
                    assert!(b.byte_len() == before_len && b.has_attribute(AttributeType::new(q)) == before_has, "C11:into-owned-or-clone-changed-the-builder");
                }
            }
        }
            } )*
    let have = (q == 0x7f01 && hx) || (q == 0x7f02 && hy) || (q == 0x0008 && hmi) || (q == 0x001C && hsha) || (q == 0x8028 && hfp);
    assert!(b.has_attribute(AttributeType::new(q)) == have, "C11:builder-query-disagrees-with-operations");
    assert!(b.byte_len() == want_len, "C11:builder-length-disagrees-with-operations");
    // (no final build(): byte_len() == serialised length == header length + 20 is the layout harness;
    // serialising here as well doubles the formula -- 20+ GB per sequence)
    kani::cover!(c == 1);
    std::mem::forget(b);
        }
    };
}
// quick tier: sequences without SHA-1 integrity / fingerprint operations (those two sealing paths take
// CBMC through core's panic formatting with symbolic operands: no result after 10 minutes)
rul!(c11_rules_121, [1, 2, 1]); // X, Y, X (dup, not the most recent)
rul!(c11_rules_515, [5, 1, 5]); // SHA, X (after integrity), SHA (dup)
rul!(c11_rules_11, [1, 1]); // X, X (dup)
rul!(c11_rules_51, [5, 1]); // SHA, X (after integrity)
rul!(c11_rules_55, [5, 5]); // SHA, SHA (dup)
rul!(c11_rules_54, [5, 4]); // SHA, MI (SHA-1 refused once SHA-256 is present)
rul!(c11_rules_21, [2, 1]); // Y, X (both accepted)
rul!(c11_rules_17, [1, 7]); // X, into_owned
rul!(c11_rules_18, [1, 8]); // X, clone
rul!(c11_rules_171, [1, 7, 1]); // X, into_owned, X (dup after into_owned)
rul!(c11_rules_181, [1, 8, 1]); // X, clone, X (dup after clone)
rul!(c11_rules_551, [5, 5, 1]); // SHA, SHA (dup), X (after integrity)
rul!(c11_rules_1215, [1, 2, 1, 5]); // X, Y, X (dup, not the most recent), SHA
rul!(c11_rules_5512, [5, 5, 1, 2]); // SHA, SHA (dup), X and Y (after integrity)
rul!(c11_rules_2812, [2, 8, 1, 2]); // Y, clone, X, Y (dup after clone)
rul!(c11_rules_1171, [1, 1, 7, 1]); // X, X (dup), into_owned, X (dup after into_owned)
rul!(c11_rules_1141, [1, 1, 4, 1]); // X, X (dup), MI, X (after integrity)
rul!(c11_rules_4546, [4, 5, 4, 6]); // MI, SHA, MI (dup), FP
rul!(c11_rules_5456, [5, 4, 5, 6]); // SHA, MI (refused after SHA-256), SHA (dup), FP
rul!(c11_rules_6456, [6, 4, 5, 6]); // FP, then MI, SHA, FP all refused
rul!(c11_rules_1216, [1, 2, 1, 6]); // X, Y, X (dup, not the most recent), FP
rul!(c11_rules_2861, [2, 8, 6, 1]); // Y, clone, FP, X (after fingerprint)
rul!(c11_rules_1752, [1, 7, 5, 2]); // X, into_owned, SHA, Y (after integrity)
rul!(c11_rules_4675, [4, 6, 7, 5]); // MI, FP, into_owned, SHA (refused after FP)
rul!(c11_rules_2127, [2, 1, 2, 7]); // Y, X, Y (dup, not the most recent), into_owned
rul!(c11_rules_5666, [5, 6, 6, 6]); // SHA, FP, FP (dup), FP

/// the duplicate rule for an attribute that is NOT the most recently added one: X, Y, then X again
/// (typed or raw makes no difference to the guard).  Only the refusal itself is asserted -- the
/// full step (byte_len / queries before and after) with three operations needs > 20 GB.
#[kani::proof]
#[kani::unwind(6)]
fn c11_dup_of_earlier_attribute() {
    let (c, m, mt) = any_mtype();
    let t: u128 = kani::any();
    let vx: [u8; 2] = kani::any();
    let vy: [u8; 3] = kani::any();
    let mut b = Message::builder(mt, t.into());
    let r1 = b.add_raw_attribute(RawAttribute::new(AttributeType::new(0x7f01), &vx)).is_err();
    let r2 = b.add_raw_attribute(RawAttribute::new(AttributeType::new(0x7f02), &vy)).is_err();
    let r3 = b.add_raw_attribute(RawAttribute::new(AttributeType::new(0x7f01), &vx)).is_err();
    assert!(!r1 && !r2, "C11:operation-refused-or-accepted-against-the-ordering-rules");
    assert!(r3, "C11:operation-refused-or-accepted-against-the-ordering-rules");
    assert!(b.has_attribute(AttributeType::new(0x7f01)) && b.has_attribute(AttributeType::new(0x7f02)), "C11:builder-query-disagrees-with-operations");
    kani::cover!(c == 1);
    std::mem::forget(b);
}
