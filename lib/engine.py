"""Engine A driver: runs Kani/CBMC harnesses of /verif/kani against /repo's working tree,
classifies the verdicts, replays counterexamples natively and writes evidence."""
import concurrent.futures as cf
import fcntl
import glob
import hashlib
import json
import os
import re
import shutil
import subprocess
import sys
import threading
import time

import registry

ROOT = os.path.dirname(os.path.dirname(os.path.abspath(__file__)))
KANI_DIR = os.path.join(ROOT, "kani")
REPLAY_DIR = os.path.join(ROOT, "replay")
OUT = os.path.join(ROOT, "out")
LOGS = os.path.join(OUT, "logs")
CASES = os.path.join(ROOT, "replay", "cases")
# seed runs (lib/seedrun.py) redirect the evidence so that a run on a mutated tree never
# overwrites the evidence of the unchanged tree
EVID = os.environ.get("VERIF_EVIDENCE_DIR") or os.path.join(ROOT, "evidence")
REPO = "/repo"

COMMON_FLAGS = ["-Z", "unstable-options", "-Z", "stubbing", "--no-assertion-reach-checks"]
MEM_BUDGET_GB = int(os.environ.get("VERIF_MEM_GB", "56"))
ENV = dict(os.environ, CARGO_NET_OFFLINE="true", CARGO_TERM_COLOR="never")


def log(*a):
    print(*a, flush=True)


def sh(cmd, cwd=None, timeout=None, env=None):
    p = subprocess.run(cmd, cwd=cwd, timeout=timeout, env=env or ENV, stdout=subprocess.PIPE,
                       stderr=subprocess.STDOUT, text=True, errors="replace")
    return p.returncode, p.stdout


# --------------------------------------------------------------------------- build

def sync_lock(dst_dir):
    """The harness crates follow /repo's Cargo.lock (copied on every run, cargo adjusts the
    patched/extra entries offline)."""
    src = os.path.join(REPO, "Cargo.lock")
    dst = os.path.join(dst_dir, "Cargo.lock")
    if not os.path.exists(dst):
        shutil.copyfile(src, dst)


def build_kani(first_harness=None):
    """Compile /repo's current working tree (both crates, through kani-compiler) and the harness
    crate.  kani-compiler only generates code for the harnesses selected with --harness (the
    filter is an argument of the final crate only), so the up-front build selects ONE harness of
    the property: it rebuilds the repository crates when /repo changed and reports build errors;
    every job then re-generates the harness crate for its own harness (a few seconds).
    Generating all ~200 harnesses here cost ~170 s per check."""
    os.makedirs(OUT, exist_ok=True)
    sync_lock(KANI_DIR)
    t0 = time.time()
    sel = ["--harness", first_harness, "--exact"] if first_harness else []
    with open(os.path.join(OUT, ".build.lock"), "w") as lk:
        fcntl.flock(lk, fcntl.LOCK_EX)
        rc, out = sh(["cargo", "kani", "--only-codegen"] + sel + COMMON_FLAGS, cwd=KANI_DIR,
                     timeout=1800)
    with open(os.path.join(OUT, "build.log"), "w") as f:
        f.write(out)
    ok = rc == 0 and "error" not in [l.split(":")[0] for l in out.splitlines() if l.startswith("error")]
    return ok, out, time.time() - t0


def codegen_one(harness):
    """goto binary of one harness (needed before its loops can be listed for --unwindset)"""
    with open(os.path.join(OUT, ".build.lock"), "w") as lk:
        fcntl.flock(lk, fcntl.LOCK_EX)
        rc, out = sh(["cargo", "kani", "--only-codegen", "--harness", harness, "--exact"] + COMMON_FLAGS, cwd=KANI_DIR, timeout=1800)
    return rc == 0


def goto_file(harness):
    name = harness.split("::")[-1]
    pat = os.path.join(KANI_DIR, "target/kani/x86_64-unknown-linux-gnu/debug/build/stunverif/*/out/*%d%s.out"
                       % (len(name), name))
    files = [f for f in glob.glob(pat) if not f.endswith(".symtab.out")]
    if not files:
        return None
    return max(files, key=os.path.getmtime)


_loops_cache = {}


def loops_of(harness):
    """[(loop id, file, line)] of the harness' goto program (cbmc --show-loops)."""
    if harness in _loops_cache:
        return _loops_cache[harness]
    codegen_one(harness)
    f = goto_file(harness)
    res = []
    if f:
        rc, out = sh(["cbmc", "--show-loops", f], timeout=600)
        cur = None
        for line in out.splitlines():
            m = re.match(r"^Loop (\S+):", line)
            if m:
                cur = m.group(1)
                continue
            m = re.match(r"^\s+file (\S+) line (\d+)", line)
            if m and cur:
                res.append((cur, m.group(1), int(m.group(2))))
                cur = None
    _loops_cache[harness] = res
    return res


def fn_line_ranges(path):
    """Very small Rust scanner: [(fn name, first line, last line)] by brace matching; good
    enough to map a loop's source line to its enclosing function in /repo sources."""
    try:
        src = open(path, errors="replace").read().splitlines()
    except OSError:
        return []
    out = []
    stack = []
    depth = 0
    paren = 0  # a `;` inside `[u8; N]` of a signature does not end a declaration
    pending = None
    for i, line in enumerate(src, 1):
        code = line.split("//")[0]
        m = re.search(r"\bfn\s+([A-Za-z_0-9]+)", code)
        if m:
            pending = (m.group(1), i)
        for ch in code:
            if ch in "([":
                paren += 1
            elif ch in ")]":
                paren = max(paren - 1, 0)
            if ch == "{":
                depth += 1
                if pending:
                    stack.append((pending[0], pending[1], depth))
                    pending = None
            elif ch == "}":
                if stack and stack[-1][2] == depth:
                    n, s, _ = stack.pop()
                    out.append((n, s, i))
                depth -= 1
            elif ch == ";" and pending and paren == 0 and depth == (stack[-1][2] if stack else 0):
                pending = None
    return out


_ranges_cache = {}


def enclosing_fn(path, line):
    if path not in _ranges_cache:
        _ranges_cache[path] = fn_line_ranges(path)
    best = None
    for n, s, e in _ranges_cache[path]:
        if s <= line <= e and (best is None or s > best[1]):
            best = (n, s, e)
    return best[0] if best else None


def resolve_unwindset(job):
    """job['unwindset'] = [[file-substring, function-name, bound], ...]  ->  'id:n,id:n'.
    Loops are selected by the source file and enclosing function of their head, both read
    from /repo's current tree, so renamed symbols fail closed (no match -> global unwind,
    unwinding assertions report a too-small bound)."""
    spec = job.get("unwindset") or []
    if not spec:
        return "", []
    chosen = []
    notes = []
    for fsub, fname, bound in spec:
        if fsub.startswith("raw:"):
            # loops of the CPROVER library (memcmp of a slice comparison) are added after --show-loops runs
            chosen.append("%s:%d" % (fsub[4:], bound))
            notes.append("%s=%d" % (fsub[4:], bound))
    for lid, f, line in loops_of(job["h"]):
        path = f if os.path.isabs(f) else os.path.normpath(os.path.join(KANI_DIR, f))
        fn = enclosing_fn(path, line)
        for fsub, fname, bound in spec:
            if fsub.startswith("raw:"):
                continue
            if fsub.startswith("id:"):
                # monomorphised std loops (Iterator::any/try_fold/extend instantiated with a closure of the
                # function under test) are told apart by the closure's path inside the mangled loop id
                if fsub[3:] in lid:
                    chosen.append("%s:%d" % (lid, bound))
                    notes.append("%s=%d" % (lid[-60:], bound))
                    break
                continue
            if fsub in path and (fname == "*" or fname == fn):
                chosen.append("%s:%d" % (lid, bound))
                notes.append("%s@%s:%d=%d" % (fn, os.path.basename(path), line, bound))
                break
    return ",".join(chosen), notes


# --------------------------------------------------------------------------- run one harness

CHECK_RE = re.compile(r"^Check (\d+): (.+)\n\t - Status: (\S+)\n\t - Description: \"(.*)\"\n(?:\t - Location: (.*)\n)?",
                      re.M)


def parse_kani(out):
    r = {"verdict": None, "failed": [], "covers": [], "n_checks": 0, "n_failed": 0,
         "steps": 0, "vars": 0, "clauses": 0, "solver_s": 0.0, "symex_s": 0.0, "verif_s": None,
         "vccs": 0, "vccs_remaining": 0, "solver_calls": 0}
    if "VERIFICATION:- SUCCESSFUL" in out:
        r["verdict"] = "SUCCESSFUL"
    elif "VERIFICATION:- FAILED" in out:
        r["verdict"] = "FAILED"
    for m in CHECK_RE.finditer(out):
        num, name, status, desc, loc = m.groups()
        desc = desc.strip('"')
        if ".cover." in name or desc.startswith("cover condition"):
            r["covers"].append({"name": name, "status": status, "desc": desc})
            continue
        r["n_checks"] += 1
        if status in ("FAILURE", "ERROR"):
            r["n_failed"] += 1
            r["failed"].append({"name": name, "status": status, "desc": desc, "loc": loc or ""})
        elif status == "UNDETERMINED":
            r["n_undetermined"] = r.get("n_undetermined", 0) + 1
    m = re.search(r"size of program expression: (\d+) steps", out)
    if m:
        r["steps"] = int(m.group(1))
    m = re.search(r"Generated (\d+) VCC\(s\), (\d+) remaining", out)
    if m:
        r["vccs"], r["vccs_remaining"] = int(m.group(1)), int(m.group(2))
    for m in re.finditer(r"^(\d+) variables, (\d+) clauses", out, re.M):
        r["vars"] = max(r["vars"], int(m.group(1)))
        r["clauses"] = max(r["clauses"], int(m.group(2)))
        r["solver_calls"] += 1
    for m in re.finditer(r"^Runtime Solver: ([0-9.e+-]+)s", out, re.M):
        r["solver_s"] += float(m.group(1))
    m = re.search(r"^Runtime Symex: ([0-9.e+-]+)s", out, re.M)
    if m:
        r["symex_s"] = float(m.group(1))
    m = re.search(r"Verification Time: ([0-9.]+)s", out)
    if m:
        r["verif_s"] = float(m.group(1))
    return r


def kani_cmd(job, extra=()):
    cmd = ["cargo", "kani", "--harness", job["h"], "--exact"] + COMMON_FLAGS + list(extra)
    cbmc_args = []
    uw, _ = resolve_unwindset(job)
    if uw:
        cbmc_args += ["--unwindset", uw]
    cbmc_args += job.get("cbmc_args", [])
    if cbmc_args:
        cmd += ["--cbmc-args"] + cbmc_args
    return cmd


def run_limited(cmd, cwd, timeout_s, mem_gb, logfile, env=None):
    """Run under `ulimit -v` and a wall-clock limit; returns (rc, output, seconds, killed)."""
    script = "ulimit -v %d; exec \"$@\"" % (mem_gb * 1024 * 1024)
    t0 = time.time()
    killed = None
    p = subprocess.Popen(["bash", "-c", script, "bash"] + cmd, cwd=cwd, env=env or ENV,
                         stdout=subprocess.PIPE, stderr=subprocess.STDOUT, text=True,
                         errors="replace", start_new_session=True)
    try:
        out, _ = p.communicate(timeout=timeout_s)
    except subprocess.TimeoutExpired:
        killed = "timeout"
        try:
            os.killpg(p.pid, 9)
        except ProcessLookupError:
            pass
        out, _ = p.communicate()
    dt = time.time() - t0
    with open(logfile, "w") as f:
        f.write("$ " + " ".join(cmd) + "\n" + out)
    return p.returncode, out, dt, killed


def run_job(job, tier):
    os.makedirs(LOGS, exist_ok=True)
    t = job.get("timeout", {}).get(tier, 900 if tier == "quick" else 3600) if isinstance(job.get("timeout"), dict) \
        else job.get("timeout", 900 if tier == "quick" else 3600)
    mem = job.get("mem", 8)
    logfile = os.path.join(LOGS, job["h"].replace("::", "-") + ".log")
    cmd = kani_cmd(job)
    rc, out, dt, killed = run_limited(cmd, KANI_DIR, t, mem, logfile)
    r = parse_kani(out)
    r.update({"h": job["h"], "wall_s": round(dt, 1), "rc": rc, "killed": killed, "log": logfile,
              "unwindset": resolve_unwindset(job)[1]})
    crashed = ("Out of memory" in out or "CBMC failed" in out or "std::bad_alloc" in out or "run out of memory" in out)
    if killed or r["verdict"] is None or crashed:
        r["state"] = "inconclusive"
        why = killed or "no verdict"
        if crashed or "out of memory" in out.lower() or "Cannot allocate" in out:
            why = "out of memory (ulimit %d GB)" % mem
        if "error: could not compile" in out or "error[E" in out:
            why = "build error"
        r["why"] = why
    elif any(f["status"] == "ERROR" for f in r["failed"]):
        # CBMC reports Status: ERROR when the solver itself failed (in practice: memory limit)
        r["state"] = "inconclusive"
        r["why"] = "solver error (memory limit %d GB?)" % mem
    elif r["verdict"] == "SUCCESSFUL":
        bad = [c for c in r["covers"] if c["status"] != "SATISFIED"]
        if bad:
            r["state"] = "vacuous"
            r["why"] = "cover not satisfied: " + "; ".join(c["desc"] for c in bad)
        else:
            r["state"] = "pass"
    else:
        r["state"] = "fail"
    return r


# --------------------------------------------------------------------------- findings

def site_key(f):
    """Role key of a failed check: the `Cnn:tag` of a harness assertion, or
    `<function>|<description>` for a built-in check inside the code under test."""
    m = re.match(r"^(C\d+:[A-Za-z0-9_.:-]+)", f["desc"])
    if m:
        return m.group(1)
    fn = ""
    m = re.search(r" in function (.*)$", f.get("loc") or "")
    if m:
        fn = m.group(1).strip()
    desc = re.sub(r"\d+", "N", f["desc"])[:80]
    return "%s|%s" % (fn, desc)


def load_findings():
    p = os.path.join(ROOT, "known_findings.json")
    if not os.path.exists(p):
        return []
    return json.load(open(p)).get("findings", [])


def match_finding(prop, key, findings):
    for kf in findings:
        if kf.get("status") != "open" or kf.get("property") != prop:
            continue
        if any(key == k or (k.endswith("*") and key.startswith(k[:-1])) for k in kf.get("keys", [])):
            return kf
    return None


# --------------------------------------------------------------------------- replay

def playback_values(job, tier):
    """Re-run the failing harness with concrete playback and parse the generated tests:
    returns [[hex, hex, ...], ...] (one value list per generated test)."""
    logfile = os.path.join(LOGS, job["h"].replace("::", "-") + ".playback.log")
    cmd = kani_cmd(job, extra=["-Z", "concrete-playback", "--concrete-playback=print"])
    t = job.get("timeout", 900)
    if isinstance(t, dict):
        t = t.get(tier, 900)
    rc, out, dt, killed = run_limited(cmd, KANI_DIR, t * 2, job.get("mem", 8) + 4, logfile)
    tests = []
    for m in re.finditer(r"/// Check for `(\w+)`: (.*?)\n.*?let concrete_vals: Vec<Vec<u8>> = vec!\[(.*?)\n\s*\];", out, re.S):
        if m.group(1) == "cover":
            continue
        vals = []
        for vm in re.finditer(r"vec!\[([0-9, ]*)\]", m.group(3)):
            nums = [int(x) for x in vm.group(1).replace(" ", "").split(",") if x]
            vals.append("".join("%02x" % n for n in nums))
        tests.append(vals)
    return tests


def build_replay():
    sync_lock(REPLAY_DIR)
    env = dict(ENV, RUSTC_WRAPPER=os.path.join(REPLAY_DIR, "rustc-wrapper.sh"))
    with open(os.path.join(OUT, ".replay.lock"), "w") as lk:
        fcntl.flock(lk, fcntl.LOCK_EX)
        rc1, o1 = sh(["cargo", "test", "--no-run"], cwd=REPLAY_DIR, timeout=1800, env=env)
        rc2, o2 = sh(["cargo", "test", "--release", "--no-run"], cwd=REPLAY_DIR, timeout=1800, env=env)
    return rc1 == 0 and rc2 == 0, o1 + o2


def native_run(harness, values_path, profile, realize=None, timeout=120):
    env = dict(ENV, RUSTC_WRAPPER=os.path.join(REPLAY_DIR, "rustc-wrapper.sh"),
               VERIF_REPLAY_VALUES=values_path, RUST_BACKTRACE="0")
    if realize is not None:
        env["VERIF_REALIZE"] = str(realize)
    cmd = ["cargo", "test"] + (["--release"] if profile == "release" else []) + \
          ["--lib", "--", harness, "--exact", "--test-threads", "1"]
    try:
        rc, out = sh(cmd, cwd=REPLAY_DIR, timeout=timeout, env=env)
    except subprocess.TimeoutExpired:
        return "hang", "native run exceeded %ds" % timeout
    if "REPLAY-DESYNC" in out or "REPLAY-ASSUME-FALSE" in out:
        return "desync", out[-1500:]
    if "running 1 test" not in out:
        return "error", out[-1500:]
    if re.search(r"test result: FAILED|panicked at", out):
        m = re.search(r"panicked at (.*?)(?:\nnote:|\n\n|$)", out, re.S)
        return "reproduced", (m.group(1).strip()[:600] if m else out[-600:])
    if "test result: ok. 1 passed" in out:
        return "passed", ""
    return "error", out[-1500:]


def replay_binary():
    """the native test binary of the replay crate (dev profile), built by build_replay()"""
    cands = [f for f in glob.glob(os.path.join(REPLAY_DIR, "target", "debug", "deps", "stunreplay-*"))
             if "." not in os.path.basename(f) and os.access(f, os.X_OK)]
    return max(cands, key=os.path.getmtime) if cands else None


def witness_search(harness, trials=30000, budget_s=300):
    """No playback from Kani (failed bounds / overflow check, or Kani's playback gave up): run the
    harness natively with biased pseudo-random values until a trial panics; returns the drawn values of
    that trial (hex strings) or None.  Only used to concretise a verdict the solver already gave.
    The test binary is started directly (a few ms per trial)."""
    binary = replay_binary()
    if not binary:
        return None, 0
    env0 = dict(ENV, RUST_BACKTRACE="0")
    t0 = time.time()
    for k in range(1, trials + 1):
        if time.time() - t0 > budget_s:
            break
        env = dict(env0, VERIF_REPLAY_SEARCH=str(k))
        try:
            p = subprocess.run([binary, harness, "--exact", "--test-threads", "1", "--nocapture"], cwd=REPLAY_DIR, env=env, timeout=20,
                               stdout=subprocess.PIPE, stderr=subprocess.STDOUT, text=True, errors="replace")
            out = p.stdout
        except subprocess.TimeoutExpired:
            out = "hang"
        if "REPLAY-ASSUME-FALSE" in out or "REPLAY-DESYNC" in out:
            continue
        if re.search(r"test result: FAILED|panicked at", out) or out == "hang":
            return re.findall(r"DRAW ([0-9a-f]*)$", out, re.M), k
    return None, 0


def replay_case(prop, job, vals, idx):
    """Replay one counterexample natively (dev and release profile; for harnesses with
    stubbed primitives also under every realisation mask, see DESIGN 2.4)."""
    os.makedirs(CASES, exist_ok=True)
    tag = "%s-%s-%d" % (prop, job["h"].replace("::", "-"), idx)
    vpath = os.path.join(CASES, tag + ".values")
    with open(vpath, "w") as f:
        f.write("# counterexample values for %s (one nondet value per line, little endian hex)\n" % job["h"])
        f.write("\n".join(vals) + "\n")
    masks = [None] + (list(range(job.get("realize_masks", 0))) if job.get("realize_masks") else [])
    outcomes = []
    status = "passed"
    for profile in ("dev", "release"):
        for mask in masks:
            st, detail = native_run(job["h"], vpath, profile, realize=mask)
            outcomes.append({"profile": profile, "realize": mask, "status": st, "detail": detail})
            if st in ("reproduced", "hang"):
                status = "reproduced"
                break
        if status == "reproduced" and profile == "dev":
            continue
    if status != "reproduced" and all(o["status"] == "desync" for o in outcomes):
        status = "desync"
    case = {"property": prop, "harness": job["h"], "values_file": vpath, "values": vals,
            "outcomes": outcomes, "status": status}
    cpath = os.path.join(CASES, tag + ".json")
    json.dump(case, open(cpath, "w"), indent=1)
    return status, cpath, outcomes


def replay_file(prop, path):
    case = json.load(open(path))
    if case.get("harness") == "hangwit::hang_witness":
        ok, out = build_replay()
        st, detail = native_run("hangwit::hang_witness", case.get("values_file") or path, "dev", timeout=900)
        log("replay hang witness:", st, detail[:300].replace("\n", " | "))
        if st in ("reproduced", "hang"):
            log("VIOLATION property=%s replay=%s" % (prop, path))
            return 1
        return 0 if st == "passed" else 2
    job = None
    for j in registry.PROPS[prop]["jobs"]:
        if j["h"] == case["harness"]:
            job = j
    if job is None:
        log("harness of the case is not registered:", case["harness"])
        return 2
    ok, out = build_replay()
    if not ok:
        log("replay build failed\n" + out[-3000:])
        return 2
    status, cpath, outcomes = replay_case(prop, job, case["values"], 99)
    for o in outcomes:
        log("replay", o["profile"], "realize=%s" % o["realize"], o["status"], o["detail"][:300].replace("\n", " | "))
    if status == "reproduced":
        log("VIOLATION property=%s replay=%s" % (prop, path))
        return 1
    return 0 if status == "passed" else 2


# --------------------------------------------------------------------------- property run

def select_jobs(prop, tier, only, seed):
    jobs = []
    for j in registry.PROPS[prop]["jobs"]:
        if tier not in j["tiers"]:
            continue
        if only and only not in j["h"]:
            continue
        if os.environ.get("VERIF_THOROUGH_ONLY") and "quick" in j["tiers"]:
            continue  # development aid: only the harnesses the thorough tier adds
        jobs.append(j)
    # VERIF_SEED only permutes the order in which jobs are started
    if seed:
        import random
        random.Random(seed).shuffle(jobs)
    jobs.sort(key=lambda j: -j.get("mem", 8))
    return jobs


def run_pool(jobs, tier, njobs):
    """Memory-aware pool: a job starts when its declared memory fits in the budget."""
    results = {}
    lock = threading.Condition()
    state = {"mem": 0, "running": 0}
    maxpar = njobs or int(os.environ.get("VERIF_JOBS", "12"))

    def worker(job):
        need = job.get("mem", 8)
        with lock:
            while state["running"] >= maxpar or (state["mem"] + need > MEM_BUDGET_GB and state["running"] > 0):
                lock.wait()
            state["mem"] += need
            state["running"] += 1
        try:
            if job["kind"] == "smt":
                import smtengine
                r = smtengine.run_job(job, tier)
            else:
                r = run_job(job, tier)
        except Exception as e:  # noqa: BLE001
            r = {"h": job["h"], "state": "inconclusive", "why": "driver exception: %r" % (e,), "failed": [],
                 "covers": [], "wall_s": 0}
        with lock:
            state["mem"] -= need
            state["running"] -= 1
            lock.notify_all()
        log("  [%s] %-55s %6.1fs  checks=%s failed=%s covers=%s/%s %s" % (
            r["state"].upper(), job["h"], r.get("wall_s", 0), r.get("n_checks", "-"), r.get("n_failed", "-"),
            sum(1 for c in r.get("covers", []) if c["status"] == "SATISFIED"), len(r.get("covers", [])),
            r.get("why", "")))
        return r

    with cf.ThreadPoolExecutor(max_workers=max(len(jobs), 1)) as ex:
        futs = {ex.submit(worker, j): j for j in jobs}
        for fu in cf.as_completed(futs):
            results[futs[fu]["h"]] = fu.result()
    return results


def repo_state():
    rc, head = sh(["git", "-C", REPO, "rev-parse", "HEAD"])
    rc, diff = sh(["git", "-C", REPO, "diff", "HEAD", "--stat"])
    rc, d = sh(["git", "-C", REPO, "diff", "HEAD"])
    return {"head": head.strip(), "dirty": bool(diff.strip()),
            "diff_sha1": hashlib.sha1(d.encode()).hexdigest() if diff.strip() else None}


def run_property(prop, tier, seed, only=None, njobs=None):
    t0 = time.time()
    P = registry.PROPS[prop]
    jobs = select_jobs(prop, tier, only, seed)
    log("== %s tier=%s seed=%d: %d harness(es)" % (prop, tier, seed, len(jobs)))
    findings = load_findings()
    results = {}
    build_s = 0.0
    build_ok = True
    if any(j["kind"] == "kani" for j in jobs):
        build_ok, bout, build_s = build_kani(next(j["h"] for j in jobs if j["kind"] == "kani"))
        if not build_ok:
            log("BUILD FAILED (harness crate against /repo working tree)")
            log("\n".join(l for l in bout.splitlines() if l.startswith("error") or " --> " in l)[:4000])
    if build_ok:
        results = run_pool(jobs, tier, njobs)
    violations = []
    known = []
    inconclusive = []
    need_replay = []
    for j in jobs:
        r = results.get(j["h"])
        if r is None:
            inconclusive.append((j["h"], "not run (build failed)"))
            continue
        if r["state"] in ("inconclusive", "vacuous"):
            inconclusive.append((j["h"], r.get("why", r["state"])))
        elif r["state"] == "fail":
            keys = sorted(set(site_key(f) for f in r["failed"]))
            r["keys"] = keys
            unlisted = [k for k in keys if not match_finding(prop, k, findings)]
            for k in keys:
                kf = match_finding(prop, k, findings)
                if kf:
                    known.append((kf, k, j["h"]))
            if unlisted:
                need_replay.append((j, r, unlisted))
    # replay the unlisted failures natively
    if need_replay:
        ok, bout = build_replay()
        if not ok:
            log("native replay crate failed to build:\n" + "\n".join(l for l in bout.splitlines() if l.startswith("error") or "-->" in l)[-3000:])
        for j, r, unlisted in need_replay:
            if j["kind"] == "smt":
                # Engine B replays its own models natively (smtengine); result recorded in r
                for rep in r.get("replays", []):
                    if rep["status"] == "reproduced":
                        violations.append((j["h"], rep["path"], unlisted, rep.get("detail", "")))
                    else:
                        inconclusive.append((j["h"], "SMT model did not reproduce natively: %s" % rep.get("detail", "")))
                continue
            if not ok:
                inconclusive.append((j["h"], "failed checks %s but replay crate does not build" % unlisted))
                continue
            tests = playback_values(j, tier)
            r["playback_tests"] = len(tests)
            if not tests:
                # Kani writes no playback for a failed UNWINDING assertion.  When the loop belongs to the
                # code under test ("fails to terminate"), concretise the solver's verdict with the native
                # witness search of kani/src/hangwit.rs; anything else stays inconclusive.
                hang_keys = [k for k in unlisted if "unwinding assertion" in k and ("stun_types::" in k or "stun_proto::" in k)]
                if hang_keys and len(hang_keys) == len(unlisted):
                    os.makedirs(CASES, exist_ok=True)
                    vpath = os.path.join(CASES, "%s-%s-hang.values" % (prop, j["h"].replace("::", "-")))
                    open(vpath, "w").write("# no solver values: witness search over message skeletons (hangwit.rs)\n")
                    st, detail = native_run("hangwit::hang_witness", vpath, "dev", timeout=900)
                    cpath = os.path.join(CASES, "%s-%s-hang.json" % (prop, j["h"].replace("::", "-")))
                    json.dump({"property": prop, "harness": "hangwit::hang_witness", "reported_by": j["h"], "solver_keys": hang_keys, "values": [],
                               "status": st, "detail": detail}, open(cpath, "w"), indent=1)
                    if st in ("reproduced", "hang"):
                        violations.append((j["h"], cpath, unlisted, detail))
                        continue
                    inconclusive.append((j["h"], "unwinding assertion failed in the code under test (%s) but the native witness search found no hanging input (%s)" % (hang_keys, st)))
                    continue
                # Kani writes no playback for failed bounds / overflow checks either: concretise with the native
                # witness search (biased random values, see shims/kani-replay), then replay that witness as usual
                vals, seed_k = witness_search(j["h"])
                r["witness_search_trials"] = seed_k
                if vals:
                    status, cpath, outcomes = replay_case(prop, j, vals, 90)
                    r["replay"] = [(status, cpath)]
                    if status == "reproduced":
                        det = next(o["detail"] for o in outcomes if o["status"] in ("reproduced", "hang"))
                        violations.append((j["h"], cpath, unlisted, det))
                        continue
                inconclusive.append((j["h"], "failed checks %s but no concrete playback was produced and the native witness search found no failing input" % unlisted))
                continue
            reproduced = False
            details = []
            for i, vals in enumerate(tests[:6]):
                status, cpath, outcomes = replay_case(prop, j, vals, i)
                details.append((status, cpath))
                if status == "reproduced":
                    reproduced = True
                    det = next(o["detail"] for o in outcomes if o["status"] in ("reproduced", "hang"))
                    violations.append((j["h"], cpath, unlisted, det))
                    break
            r["replay"] = details
            if not reproduced:
                inconclusive.append((j["h"], "counterexample for %s did not reproduce natively (%s): model/stub problem, not reported"
                                     % (unlisted, ",".join(d[0] for d in details))))
    wall = time.time() - t0
    write_evidence(prop, tier, seed, P, jobs, results, violations, known, inconclusive, wall, build_s)
    seen = set()
    for kf, k, h in known:
        if (kf["id"], k) in seen:
            continue
        seen.add((kf["id"], k))
        log("KNOWN-FINDING: property=%s %s [%s; key=%s; harness=%s]" % (prop, kf["what"], kf["id"], k, h))
    for h, why in inconclusive:
        log("INCONCLUSIVE property=%s harness=%s: %s" % (prop, h, why))
    for h, path, keys, det in violations:
        log("  violated: %s keys=%s native: %s" % (h, keys, det.replace("\n", " | ")[:400]))
        log("VIOLATION property=%s replay=%s" % (prop, path))
    log("== %s done in %.0fs: %d pass, %d violation(s), %d known, %d inconclusive" % (
        prop, wall, sum(1 for r in results.values() if r["state"] == "pass"), len(violations), len(seen),
        len(inconclusive)))
    if violations:
        return 1
    if inconclusive:
        return 2
    return 0


def write_evidence(prop, tier, seed, P, jobs, results, violations, known, inconclusive, wall, build_s):
    os.makedirs(EVID, exist_ok=True)
    hs = []
    tot = {"checks": 0, "steps": 0, "solver_s": 0.0, "symex_s": 0.0, "solver_calls": 0, "covers_sat": 0,
           "covers": 0, "vccs": 0}
    samples = []
    for j in jobs:
        r = results.get(j["h"], {"state": "not-run"})
        hs.append({"harness": j["h"], "engine": j["kind"], "state": r.get("state"), "encodes": j.get("encodes", ""),
                   "bounds": j.get("bounds", ""), "unwindset": r.get("unwindset", []),
                   "cbmc_checks": r.get("n_checks", 0), "failed_checks": r.get("n_failed", 0),
                   "failed_keys": r.get("keys", []),
                   "covers": ["%s: %s" % (c["status"], c["desc"]) for c in r.get("covers", [])],
                   "program_steps": r.get("steps", 0), "sat_vars": r.get("vars", 0), "sat_clauses": r.get("clauses", 0),
                   "solver_calls": r.get("solver_calls", 0), "symex_s": round(r.get("symex_s", 0), 2),
                   "solver_s": round(r.get("solver_s", 0), 2), "wall_s": r.get("wall_s", 0),
                   "why": r.get("why", ""), "queries": r.get("queries", None)})
        tot["checks"] += r.get("n_checks", 0)
        tot["steps"] += r.get("steps", 0)
        tot["vccs"] += r.get("vccs", 0)
        tot["solver_s"] += r.get("solver_s", 0)
        tot["symex_s"] += r.get("symex_s", 0)
        tot["solver_calls"] += r.get("solver_calls", 0)
        tot["covers"] += len(r.get("covers", []))
        tot["covers_sat"] += sum(1 for c in r.get("covers", []) if c["status"] == "SATISFIED")
        if r.get("state") in ("pass", "fail"):
            samples.append({"obligation": j["h"], "encodes": j.get("encodes", ""), "bounds": j.get("bounds", ""),
                            "verdict": r.get("state"),
                            "witnessed": [c["desc"] for c in r.get("covers", []) if c["status"] == "SATISFIED"][:6]})
    decided = [h for h in hs if h["state"] in ("pass", "fail")]
    nontrivial = [h for h in hs if h["state"] == "pass" and h["cbmc_checks"] > 0]
    ev = {
        "property_id": prop,
        "tier": tier,
        "seed": seed,
        "level": "model_checking",
        "wall_s": round(wall, 1),
        "violations": len(violations),
        "coverage": {
            "evaluations": max(len(decided), 1) if decided else max(len(jobs), 1),
            "distinct_nontrivial": len(nontrivial),
            "rule": "one evaluation = one bounded symbolic query (Kani harness -> CBMC -> SAT, or MIR slice -> SMT) decided "
                    "by the solver for ALL inputs inside the stated bound; non-trivial = verdict SUCCESSFUL with >=1 CBMC "
                    "property checked and every kani::cover! vacuity witness SATISFIED; distinct = distinct harness. "
                    "states = symbolic execution steps of all decided harnesses (+ SMT queries of Engine B); transitions = verification conditions "
                    "generated by CBMC (+ arithmetic sites decided by Engine B); traces_validated_against_impl = counterexample traces replayed natively "
                    "against the real build in this run (0 on a run without failed checks)",
            "samples": samples[:40] or [{"obligation": j["h"], "verdict": "not decided"} for j in jobs[:5]],
            # the level's own keys (model_checking): measured on this run, see `rule`
            "states": tot["steps"] + sum(len(r.get("queries") or []) for r in results.values()),
            "transitions": tot["vccs"] + sum(r.get("n_checks", 0) for r in results.values() if r.get("queries")),
            "traces_validated_against_impl": sum(len(r.get("replay", [])) for r in results.values()) + sum(len(r.get("replays", [])) for r in results.values()),
            "exhaustive": False,
            "technique": "bounded symbolic execution of the compiled Rust code (Kani 0.68 / CBMC 6.11, CaDiCaL) and "
                         "MIR->SMT-LIB2 (z3, cvc5) for 64 KiB arithmetic kernels",
            "functions_encoded": P.get("functions", []),
            "bounds": P.get("bounds", ""),
            "outside_the_claim": P.get("outside", []),
            "stubs": P.get("stubs", []),
            "harnesses": hs,
            "cbmc_properties_checked": tot["checks"],
            "vccs_generated": tot["vccs"],
            "program_steps": tot["steps"],
            "solver_queries": tot["solver_calls"],
            "solver_time_s": round(tot["solver_s"], 2),
            "symex_time_s": round(tot["symex_s"], 2),
            "build_time_s": round(build_s, 1),
            "vacuity_witnesses": "%d/%d satisfied" % (tot["covers_sat"], tot["covers"]),
            "known_findings_hit": sorted(set(kf["id"] for kf, _, _ in known)),
            "inconclusive": ["%s: %s" % x for x in inconclusive],
            "violations": [{"harness": h, "replay": p, "keys": k, "native": d[:300]} for h, p, k, d in violations],
            "repo": repo_state(),
        },
        "assumptions": P.get("assumptions", []) + [
            "Kani/CBMC/CaDiCaL, rustc's MIR and the goto-C translation are trusted",
            "logging is the no-op tracing shim (= no subscriber installed)",
            "portable (force-soft) hash back-ends are what is encoded; std and third-party crates are trusted beyond the harness bounds",
        ],
    }
    if ev["coverage"]["distinct_nontrivial"] < 2:
        # schema minimum; say so instead of inflating
        ev["coverage"]["note"] = "fewer than 2 harnesses passed in this run"
    json.dump(ev, open(os.path.join(EVID, prop + ".json"), "w"), indent=1)
