//! `refdec`: a straight-line STUN decoder written from RFC 8489 s5/s14 and the wording of
//! properties C02/C10/C17 -- independent of stun-types (no shared code, offsets and lengths
//! only, no allocation).  It walks at most MAXA attributes; harness bounds keep messages inside.
pub const MAXA: usize = 8;

pub const T_MI: u16 = 0x0008;
pub const T_SHA: u16 = 0x001C;
pub const T_FP: u16 = 0x8028;

// causes why the first offending attribute may be refused (several can apply at once; the
// statement does not rank them, so the implementation may name any applicable one)
pub const C_TRUNC: u8 = 1; // attribute header / value / padding runs past the declared end
pub const C_AFTER_INT: u8 = 2; // AttributeAfterIntegrity(type)
pub const C_AFTER_FP: u8 = 4; // AttributeAfterFingerprint(type)
pub const C_FP_LEN: u8 = 8; // FINGERPRINT whose value is not 4 bytes
pub const C_FP_CRC: u8 = 16; // FingerprintMismatch

#[derive(Clone, Copy, PartialEq, Eq, Debug)]
pub enum Verdict {
    Accept,
    /// fewer than 20 bytes
    ShortHeader,
    /// top bits or cookie
    NotStun,
    /// declared length + 20 > available
    ShortBody { expected: usize },
    /// the attribute at index `k` (type `typ`) is refused for one of `causes`
    Attr { k: usize, typ: u16, causes: u8 },
}

#[derive(Clone, Copy, Debug)]
pub struct Ref {
    pub verdict: Verdict,
    /// end of the declared message (20 + declared length) when the header is fine
    pub end: usize,
    /// bytes beyond the declared end
    pub excess: usize,
    pub n: usize,
    pub off: [usize; MAXA],
    pub typ: [u16; MAXA],
    pub alen: [usize; MAXA],
    /// C10 exposure rule, meaningful when verdict == Accept
    pub exposed: [bool; MAXA],
    /// offset of the FINGERPRINT attribute whose CRC was consulted, if any
    pub fp_off: Option<usize>,
    /// more than MAXA attributes: outside the harness bound
    pub overflow: bool,
}

fn be16(b: &[u8], o: usize) -> usize {
    ((b[o] as usize) << 8) | b[o + 1] as usize
}

/// `crc_ok(off)`: does the FINGERPRINT value at attribute offset `off` match the CRC of the
/// message up to `off` (length field covering the attribute)?  Supplied by the harness: from the
/// recorder stub under Kani, from the real/independent CRC natively.
pub fn refdec<F: Fn(usize) -> bool>(b: &[u8], crc_ok: F) -> Ref {
    let len = b.len();
    let mut r = Ref {
        verdict: Verdict::Accept,
        end: 0,
        excess: 0,
        n: 0,
        off: [0; MAXA],
        typ: [0; MAXA],
        alen: [0; MAXA],
        exposed: [false; MAXA],
        fp_off: None,
        overflow: false,
    };
    if len < 20 {
        r.verdict = Verdict::ShortHeader;
        return r;
    }
    if b[0] & 0xc0 != 0 || b[4] != 0x21 || b[5] != 0x12 || b[6] != 0xa4 || b[7] != 0x42 {
        r.verdict = Verdict::NotStun;
        return r;
    }
    let mlen = be16(b, 2);
    if 20 + mlen > len {
        r.verdict = Verdict::ShortBody { expected: 20 + mlen };
        return r;
    }
    let end = 20 + mlen;
    r.end = end;
    r.excess = len - end;
    let mut o = 20;
    let mut seen_mi = false;
    let mut seen_sha = false;
    let mut seen_fp = false;
    let mut k = 0;
    while o < end {
        if k >= MAXA {
            r.overflow = true;
            return r;
        }
        let mut causes = 0u8;
        if o + 4 > end {
            // not even an attribute header
            r.verdict = Verdict::Attr { k, typ: 0, causes: C_TRUNC };
            return r;
        }
        let t = be16(b, o) as u16;
        let l = be16(b, o + 2);
        let padded = (l + 3) & !3;
        if o + 4 + padded > end {
            causes |= C_TRUNC;
        }
        let seal = t == T_MI || t == T_SHA || t == T_FP;
        let repeat = (t == T_MI && seen_mi) || (t == T_SHA && seen_sha) || (t == T_FP && seen_fp);
        if seen_fp {
            // nothing may follow a FINGERPRINT
            causes |= C_AFTER_FP;
        } else if (seen_mi || seen_sha) && (!seal || repeat) {
            causes |= C_AFTER_INT;
        }
        if t == T_FP && causes == 0 {
            if l != 4 {
                causes |= C_FP_LEN;
            } else {
                r.fp_off = Some(o);
                if !crc_ok(o) {
                    causes |= C_FP_CRC;
                }
            }
        }
        if causes != 0 {
            r.verdict = Verdict::Attr { k, typ: t, causes };
            return r;
        }
        r.off[k] = o;
        r.typ[k] = t;
        r.alen[k] = l;
        if t == T_MI {
            seen_mi = true;
        }
        if t == T_SHA {
            seen_sha = true;
        }
        if t == T_FP {
            seen_fp = true;
        }
        o += 4 + padded;
        k += 1;
    }
    r.n = k;
    // C10: everything up to and including the first integrity attribute; then a SHA256 that
    // directly follows a MESSAGE-INTEGRITY; then the FINGERPRINT; nothing else.
    let mut seen_int = false;
    let mut j = 0;
    while j < k {
        let t = r.typ[j];
        if !seen_int {
            r.exposed[j] = true;
            if t == T_MI || t == T_SHA {
                seen_int = true;
            }
        } else if t == T_FP {
            r.exposed[j] = true;
        } else if t == T_SHA && j > 0 && r.typ[j - 1] == T_MI {
            r.exposed[j] = true;
        }
        j += 1;
    }
    r
}
