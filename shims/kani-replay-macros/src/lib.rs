//! Native stand-ins for Kani's attribute macros, used only by /verif/replay.
//! `#[kani::proof]` turns the harness into a `#[test]`; the other attributes vanish
//! (in particular `#[kani::stub]`: native replays run the real functions).
use proc_macro::TokenStream;

#[proc_macro_attribute]
pub fn proof(_args: TokenStream, item: TokenStream) -> TokenStream {
    let mut out: TokenStream = "#[test]".parse().unwrap();
    out.extend(item);
    out
}
#[proc_macro_attribute]
pub fn unwind(_args: TokenStream, item: TokenStream) -> TokenStream {
    item
}
#[proc_macro_attribute]
pub fn stub(_args: TokenStream, item: TokenStream) -> TokenStream {
    item
}
#[proc_macro_attribute]
pub fn should_panic(_args: TokenStream, item: TokenStream) -> TokenStream {
    item
}
#[proc_macro_attribute]
pub fn solver(_args: TokenStream, item: TokenStream) -> TokenStream {
    item
}
