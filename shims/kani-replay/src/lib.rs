//! Native replay stand-in for the `kani` crate.
//!
//! `any::<T>()` pops the next value of the counterexample (file named by
//! `VERIF_REPLAY_VALUES`: one line per nondet value, bytes in hex, little endian as Kani prints
//! them).  `assume(false)` ends the run with exit status 77 (the counterexample does not
//! satisfy the harness assumptions natively = replay desync), running out of values or a size
//! mismatch ends it with exit status 78.
pub use kani_replay_macros::{proof, should_panic, solver, stub, unwind};

use std::cell::RefCell;
use std::collections::VecDeque;

thread_local! {
    static VALUES: RefCell<Option<VecDeque<Vec<u8>>>> = RefCell::new(None);
}

fn load() -> VecDeque<Vec<u8>> {
    let path = std::env::var("VERIF_REPLAY_VALUES").expect("VERIF_REPLAY_VALUES not set");
    let text = std::fs::read_to_string(path).expect("cannot read replay values");
    let mut q = VecDeque::new();
    for line in text.lines() {
        let line = line.trim();
        if line.starts_with('#') {
            continue;
        }
        let mut v = Vec::new();
        let b = line.as_bytes();
        let mut i = 0;
        while i + 1 < b.len() {
            v.push(u8::from_str_radix(&line[i..i + 2], 16).expect("hex"));
            i += 2;
        }
        q.push_back(v);
    }
    q
}

pub fn desync(msg: &str) -> ! {
    eprintln!("REPLAY-DESYNC: {msg}");
    std::process::exit(78);
}

thread_local! {
    static RNG: RefCell<Option<u64>> = RefCell::new(None);
}

fn rnd() -> u64 {
    RNG.with(|r| {
        let mut r = r.borrow_mut();
        if r.is_none() {
            let seed: u64 = std::env::var("VERIF_REPLAY_SEARCH").ok().and_then(|s| s.parse().ok()).unwrap_or(1);
            *r = Some(seed.wrapping_mul(0x9E37_79B9_7F4A_7C15) | 1);
        }
        // xorshift64*
        let mut x = r.unwrap();
        x ^= x >> 12;
        x ^= x << 25;
        x ^= x >> 27;
        *r = Some(x);
        x.wrapping_mul(0x2545_F491_4F6C_DD1D)
    })
}

/// Witness-search mode (VERIF_REPLAY_SEARCH=<seed>): when the solver reports a failed built-in
/// check for which Kani writes no playback (bounds checks, arithmetic overflow), the driver runs
/// the harness natively with pseudo-random values biased towards small numbers until one trial
/// reproduces the failure; every drawn value is printed (`DRAW <hex>`) so that the witness can be
/// stored and replayed like a solver counterexample.  The verdict is the solver's; this only
/// concretises it.
fn search_bytes(n: usize) -> Vec<u8> {
    let mode = rnd() % 100;
    let mut v = vec![0u8; n];
    if mode < 20 {
        // zero
    } else if mode < 70 {
        v[0] = (rnd() % 4) as u8;
    } else if mode < 85 {
        v[0] = (rnd() % 256) as u8;
        if n > 1 {
            v[1] = (rnd() % 4) as u8;
        }
    } else if mode < 90 {
        for b in v.iter_mut() {
            *b = 0xff;
        }
    } else {
        for b in v.iter_mut() {
            *b = rnd() as u8;
        }
    }
    let hex: String = v.iter().map(|b| format!("{:02x}", b)).collect();
    eprintln!("DRAW {}", hex);
    v
}

pub fn next_bytes(n: usize) -> Vec<u8> {
    if std::env::var("VERIF_REPLAY_SEARCH").is_ok() {
        return search_bytes(n);
    }
    VALUES.with(|v| {
        let mut v = v.borrow_mut();
        if v.is_none() {
            *v = Some(load());
        }
        match v.as_mut().unwrap().pop_front() {
            None => desync("ran out of counterexample values"),
            Some(b) => {
                if b.len() != n {
                    desync(&format!("value size mismatch: want {n} have {}", b.len()));
                }
                b
            }
        }
    })
}

pub trait Arbitrary: Sized {
    fn any() -> Self;
}

macro_rules! int_arb {
    ($($t:ty),*) => {$(
        impl Arbitrary for $t {
            fn any() -> Self {
                let b = next_bytes(std::mem::size_of::<$t>());
                <$t>::from_le_bytes(b.try_into().unwrap())
            }
        }
    )*};
}
int_arb!(u8, u16, u32, u64, u128, usize, i8, i16, i32, i64, i128, isize);

impl Arbitrary for bool {
    fn any() -> Self {
        if std::env::var("VERIF_REPLAY_SEARCH").is_ok() {
            // (drawn and logged as 0/1 so that the stored witness replays in normal mode)
            let v = (rnd() >> 17) & 1;
            eprintln!("DRAW {:02x}", v);
            return v == 1;
        }
        let b = next_bytes(1);
        if b[0] > 1 {
            // Kani's bool::any() assumes the byte is 0 or 1
            std::process::exit(77);
        }
        b[0] == 1
    }
}

// Kani draws arrays element by element
impl<T: Arbitrary, const N: usize> Arbitrary for [T; N] {
    fn any() -> Self {
        std::array::from_fn(|_| T::any())
    }
}

pub fn any<T: Arbitrary>() -> T {
    T::any()
}

pub fn assume(cond: bool) {
    if !cond {
        eprintln!("REPLAY-ASSUME-FALSE");
        std::process::exit(77);
    }
}

#[macro_export]
macro_rules! cover {
    ($($t:tt)*) => {{}};
}
