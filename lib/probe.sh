#!/bin/sh
# background probe of one harness under a wall-clock cap: lib/probe.sh <harness> [seconds] [extra cargo-kani args]
# KDIR selects the crate copy (default: the dev copy /tmp/kdev, see lib/kdev.sh)
h=$1; t=${2:-300}; shift; shift
cd "${KDIR:-/tmp/kdev}"
mkdir -p /verif/out
log=/verif/out/probe-$(echo $h | tr ':' '_').log
( /usr/bin/time -f "WALL %es RSS %MkB" env CARGO_NET_OFFLINE=true timeout $t cargo kani --harness $h --exact -Z unstable-options -Z stubbing --no-assertion-reach-checks "$@" > $log 2>&1; echo "EXIT $?" >> $log ) &
