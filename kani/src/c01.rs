//! C01: decoding and inspection never panic or hang.  No oracle: Kani's built-in checks
//! (panic, unwrap, unreachable!, arithmetic overflow, index/slice bounds, unwinding assertions)
//! on the real code are the property.
use crate::c02::crc_oracle;
use crate::refdec::*;
use crate::stubs::*;
use crate::util::*;
use stun_types::attribute::*;
use stun_types::message::*;
use stun_types::prelude::*;

#[kani::proof]
#[kani::unwind(5)]
fn c01_message_type_any_length() {
    let buf: [u8; 4] = kani::any();
    let len: usize = kani::any();
    kani::assume(len <= 4);
    let r = MessageType::from_bytes(&buf[..len]);
    let r2 = MessageType::try_from(&buf[..len]);
    assert!(r.is_ok() == r2.is_ok(), "C01:try-from-equals-from-bytes");
    kani::cover!(len == 0);
    kani::cover!(len == 1);
    kani::cover!(len == 4 && r.is_ok());
}

#[kani::proof]
#[kani::unwind(5)]
fn c01_header_any_length() {
    let buf: [u8; 24] = kani::any();
    let len: usize = kani::any();
    kani::assume(len <= 24);
    let r = MessageHeader::from_bytes(&buf[..len]);
    kani::cover!(r.is_ok());
    kani::cover!(len == 0);
}

#[kani::proof]
#[kani::unwind(5)]
fn c01_raw_attribute_small() {
    let buf: [u8; 16] = kani::any();
    let len: usize = kani::any();
    kani::assume(len <= 16);
    if let Ok(a) = RawAttribute::from_bytes(&buf[..len]) {
        assert!(a.value.len() + 4 <= len, "C01:raw-attribute-value-inside-buffer");
        let _ = a.padded_len();
        let _ = a.length();
    }
    let h = AttributeHeader::try_from(&buf[..len]);
    assert!(h.is_ok() == (len >= 4), "C01:attribute-header-needs-4-bytes");
    kani::cover!(len == 16);
    kani::cover!(len == 3);
}

/// the 16-bit boundary: a raw attribute decoded from a buffer of up to 70000 bytes
#[kani::proof]
#[kani::unwind(5)]
fn c01_raw_attribute_70000() {
    let buf: [u8; 70000] = kani::any();
    let len: usize = kani::any();
    kani::assume(len <= 70000);
    if let Ok(a) = RawAttribute::from_bytes(&buf[..len]) {
        assert!(a.value.len() + 4 <= len, "C01:raw-attribute-value-inside-buffer");
        let _ = a.padded_len();
    }
    kani::cover!(len == 70000);
    kani::cover!(len == 65540);
}

/// whole-message parse of arbitrary bytes, then every attribute is walked and one typed lookup made
fn inspect<const N: usize>() {
    prelude!(N, buf, len, probe, q, data, res, r);
    if let Ok(msg) = &res {
        let mut n = 0usize;
        for a in msg.iter_attributes() {
            n += a.padded_len();
        }
        assert!(n + 20 <= len, "C01:iteration-stays-inside-the-buffer");
        let _ = msg.has_attribute(AttributeType::new(q));
        let _ = msg.get_type();
        let _ = msg.is_response();
    }
    kani::cover!(res.is_ok() && r.n >= 2);
}

#[kani::proof]
#[kani::unwind(5)]
#[kani::stub(stun_types::attribute::Fingerprint::compute, crc_stub)]
fn c01_inspect_32() {
    inspect::<32>();
}

#[kani::proof]
#[kani::unwind(8)]
#[kani::stub(stun_types::attribute::Fingerprint::compute, crc_stub)]
fn c01_inspect_44() {
    inspect::<44>();
}

/// typed extraction on an accepted message (the generic `attribute::<A>()` = first match +
/// A::from_raw; A::from_raw for all 19 A on arbitrary raw attributes is c01 part B)
macro_rules! typed {
    ($name:ident, $T:ty) => {
        #[kani::proof]
        #[kani::unwind(5)]
        #[kani::stub(stun_types::attribute::Fingerprint::compute, crc_stub)]
        #[kani::stub(std::str::from_utf8, crate::c08::utf8_via_ref)]
        fn $name() {
            prelude!(32, buf, len, probe, q, data, res, r);
            if let Ok(msg) = &res {
                let x = msg.attribute::<$T>();
                kani::cover!(x.is_ok());
                kani::cover!(matches!(x, Err(StunParseError::MissingAttribute(_))));
            }
        }
    };
}
typed!(c01_typed_error_code, ErrorCode);
typed!(c01_typed_xor_mapped_address, XorMappedAddress);
typed!(c01_typed_username, Username);
typed!(c01_typed_fingerprint, Fingerprint);

/// attribute-type policing (`check_attribute_types`) on EVERY accepted message of any class with
/// symbolic supported / required lists.  The two response constructors are recorder stubs that
/// still call the real `Message::builder_error` (stubs.rs): whether policing can panic is decided
/// on the real verdict logic + the real builder_error; the attribute-adding half of the
/// constructors only runs for requests and is decided in c16_response_*_parses_back.
fn policing<const N: usize>() {
    prelude!(N, buf, len, probe, q, data, res, r);
    let sup: u16 = kani::any();
    let req: u16 = kani::any();
    let ns: usize = kani::any();
    let nr: usize = kani::any();
    kani::assume(ns <= 1 && nr <= 1);
    let supt = [AttributeType::new(sup)];
    let reqt = [AttributeType::new(req)];
    if let Ok(msg) = &res {
        let out = Message::check_attribute_types(msg, &supt[..ns], &reqt[..nr]);
        kani::cover!(out.is_some());
        kani::cover!(out.is_none() && msg.class() != MessageClass::Request);
        std::mem::forget(out);
    }
}

// (at most one attribute in 24 bytes, lists of at most one entry: every loop of the
// iterator/closure nest of check_attribute_types runs at most twice and gets bound 3 through
// --unwindset (registry); with 28 bytes and the global bound 5 the nest is 6.1 M symex steps and
// did not finish in 30 minutes)
#[kani::proof]
#[kani::unwind(5)]
#[kani::stub(stun_types::attribute::Fingerprint::compute, crc_stub)]
#[kani::stub(stun_types::message::Message::unknown_attributes, unknown_attributes_stub)]
#[kani::stub(stun_types::message::Message::bad_request, bad_request_stub)]
fn c01_policing_any_class_24() {
    policing::<24>();
}

/// quick-tier version: header-only message of a fixed class (one instantiation per class), method
/// and id -- fully concrete bytes, so that the attribute walk folds away -- and a symbolic
/// required-type list of 0..=1 entries (the missing-attribute branch)
fn policing_header_only<const CLASS: u8>() {
    let req: u16 = kani::any();
    let nr: usize = kani::any();
    kani::assume(nr <= 1);
    let b = crate::agentworld::header_msg(CLASS, 0x001, crate::agentworld::tid(1));
    let msg = Message::from_bytes(&b).unwrap();
    let reqt = [AttributeType::new(req)];
    let out = Message::check_attribute_types(&msg, &[], &reqt[..nr]);
    if CLASS == 0 {
        kani::cover!(out.is_some());
    }
    kani::cover!(out.is_none());
    std::mem::forget(out);
}

macro_rules! pol {
    ($name:ident, $C:expr) => {
        #[kani::proof]
        #[kani::unwind(5)]
        #[kani::stub(stun_types::message::Message::unknown_attributes, unknown_attributes_stub)]
        #[kani::stub(stun_types::message::Message::bad_request, bad_request_stub)]
        fn $name() {
            policing_header_only::<$C>();
        }
    };
}
pol!(c01_policing_header_only_request, 0);
pol!(c01_policing_header_only_indication, 1);
pol!(c01_policing_header_only_success, 2);
pol!(c01_policing_header_only_error, 3);
