"""Harness registry: property -> solver jobs.  See DESIGN.md for what each one encodes."""

Q = ("quick", "thorough")
T = ("thorough",)


def K(h, tiers=Q, **kw):
    d = dict(h=h, tiers=tiers, kind="kani")
    d.update(kw)
    return d


def S(h, tiers=Q, **kw):
    d = dict(h=h, tiers=tiers, kind="smt")
    d.update(kw)
    return d


PROPS = {}

PROPS["C19"] = dict(
    functions=["MessageType::{from_class_method,class,method,from_bytes,write_into,to_bytes}", "MessageClass::to_bits",
               "TransactionId::from(u128)", "u128::from(TransactionId)", "MessageHeader::from_bytes",
               "Message::{transaction_id,get_type}", "MessageBuilder::{write_into,build}"],
    bounds="none beyond the type widths: all 4x4096 (class, method), all 65536 type fields, all u128 ids",
    outside=["TransactionId::generate() is not executed (thread-local RNG); it goes through From<u128>, the only constructor"],
    jobs=[
        K("c19::c19_class_method_roundtrip", encodes="from_class_method == RFC interleaving; class/method/from_bytes invert it",
          bounds="all 4 classes x all 4096 methods"),
        K("c19::c19_all_type_values", encodes="from_bytes on every 16-bit value: NotStun iff top bits set, else unique (class, method)",
          bounds="all 65536 values"),
    ],
)
